package main

import (
	"fmt"
	"math"
	"math/big"

	"github.com/tuneinsight/lattigo/v6/core/rlwe"
	"github.com/tuneinsight/lattigo/v6/ring"
	"github.com/tuneinsight/lattigo/v6/ring/ringqp"
	"github.com/tuneinsight/lattigo/v6/schemes/bgv"

	"verif/engine"
	"verif/lib/bgvu"
	"verif/ref"
	"verif/uni"
)

// ---------------------------------------------------------------------------------------------
// BGV integer encoder

func bgvConfigs(tier string) []bgvu.Conf {
	t30 := bgvu.PlainModulus(4, 30)
	t60 := bgvu.PlainModulusAt(4, 60, 7, 10) // 60 bits, below Q[0]/2 for the 61-bit chain at 0.9*2^61
	cs := []bgvu.Conf{
		{Name: "t17-n16-gap2", LogN: 4, QBits: 30, NQ: 3, PBits: 30, NP: 1, T: 17},
		{Name: "t97-n16-gap1", LogN: 4, QBits: 30, NQ: 3, PBits: 30, NP: 1, T: 97},
		{Name: "t17-n32-gap4", LogN: 5, QBits: 30, NQ: 3, PBits: 30, NP: 1, T: 17},
		{Name: "t97-n32-gap2", LogN: 5, QBits: 30, NQ: 3, PBits: 30, NP: 2, T: 97},
		{Name: "t193-n32-gap1", LogN: 5, QBits: 30, NQ: 3, PBits: 30, NP: 1, T: 193},
		{Name: "t65537-n16", LogN: 4, QBits: 55, NQ: 3, PBits: 55, NP: 1, T: 65537},
		{Name: "t30b-n16", LogN: 4, QBits: 55, NQ: 3, PBits: 55, NP: 1, T: t30},
		{Name: "t60b-n16", LogN: 4, NQ: 3, NP: 1, T: t60, Q: bgvu.Q61(4, 3, 0), P: bgvu.Q61(4, 1, 3)},
		{Name: "t17-n64-gap8", LogN: 6, QBits: 30, NQ: 3, PBits: 30, NP: 1, T: 17},
		{Name: "t97-n64-gap4", LogN: 6, QBits: 55, NQ: 2, PBits: 55, NP: 2, T: 97},
	}
	if tier == "thorough" {
		cs = append(cs,
			bgvu.Conf{Name: "t17-n128-gap16", LogN: 7, QBits: 30, NQ: 3, PBits: 30, NP: 1, T: 17},
			bgvu.Conf{Name: "t257-n64-gap1", LogN: 6, QBits: 30, NQ: 4, PBits: 30, NP: 1, T: 257},
			bgvu.Conf{Name: "t60b-n32", LogN: 5, NQ: 2, NP: 1, T: bgvu.PlainModulusAt(5, 60, 7, 10), Q: bgvu.Q61(5, 2, 0), P: bgvu.Q61(5, 1, 2)},
		)
	}
	return cs
}

type bgvWorld struct {
	cf     bgvu.Conf
	p      bgv.Parameters
	ecd    *bgv.Encoder
	t      uint64
	n      int // plaintext ring degree = number of slots
	N      int
	gap    int
	L      int
	roots  []uint64 // roots[j]: the point at which slot j evaluates the plaintext polynomial (observed)
	scales []uint64
}

var bgvWorlds = map[string]*bgvWorld{}

func getBgvWorld(cf bgvu.Conf) *bgvWorld {
	if w, ok := bgvWorlds[cf.Name]; ok {
		return w
	}
	p := cf.Build()
	w := &bgvWorld{cf: cf, p: p, ecd: bgv.NewEncoder(p), t: p.PlaintextModulus(), n: p.MaxSlots(), N: p.N(), L: p.MaxLevel()}
	w.gap = w.N / w.n
	t := w.t
	// scales coprime to t (t is prime: any non-zero residue)
	w.scales = []uint64{1, 2, t - 1, (t + 1) / 2, p.Q()[1] % t}
	// observe the evaluation points: decode the polynomial Y
	pT := p.RingT().NewPoly()
	pT.Coeffs[0][1] = 1
	w.roots = make([]uint64, w.n)
	if err := w.ecd.DecodeRingT(pT, p.NewScale(1), w.roots); err != nil {
		panic(err)
	}
	bgvWorlds[cf.Name] = w
	return w
}

// u64 / i64 boundary alphabets of the message space
func u64Alphabet(t uint64) []uint64 {
	return []uint64{0, 1, t - 1, t, t + 1, 1 << 63, math.MaxUint64, (t - 1) / 2, (t + 1) / 2, 2}
}

func i64Alphabet(t uint64) []int64 {
	h1, h2 := int64((t-1)/2), int64((t+1)/2)
	return []int64{0, 1, -1, math.MinInt64, math.MaxInt64, h1, -h1, h2, -h2, int64(t), -int64(t), int64(t) + 1, -int64(t) - 1, int64(t) - 1}
}

// evalAt evaluates sum_k m[k] x^k mod t (Horner).
func evalAt(m []uint64, x, t uint64) uint64 {
	var r uint64
	for k := len(m) - 1; k >= 0; k-- {
		r = ref.AddMod(ref.MulMod(r, x, t), m[k], t)
	}
	return r
}

// plainCoeffs recovers, independently of the decoder, the plaintext polynomial over Z_t carried by a plaintext
// in the "t^-1" form: coefficient j of the ring element times t, centred mod Q, reduced mod t. Coefficients at
// positions that are not multiples of gap are returned separately (they must vanish: the message space is the
// subring Z_t[X^gap]).
func (w *bgvWorld) plainCoeffs(pt *rlwe.Plaintext) (m []uint64, offGrid bool) {
	level := pt.Level()
	cs := uni.PolyCoeffs(w.p.RingQ(), pt.Value, level, pt.IsNTT, pt.IsMontgomery)
	Q := uni.QAtLevel(w.p.Parameters, level)
	tB := new(big.Int).SetUint64(w.t)
	m = make([]uint64, w.n)
	for j, c := range cs {
		v := ref.Center(new(big.Int).Mul(c, tB), Q)
		if j%w.gap != 0 {
			if v.Sign() != 0 {
				offGrid = true
			}
			continue
		}
		m[j/w.gap] = ref.ModU(v, w.t)
	}
	return
}

type bgvCase struct {
	batched bool
	signed  bool
	level   int
	scale   uint64
}

func (bc bgvCase) String() string {
	return fmt.Sprintf("batched=%v signed=%v level=%d scale=%d", bc.batched, bc.signed, bc.level, bc.scale)
}

// roundTrip encodes one vector (given both as the typed slice handed to the encoder and as residues mod t) and
// applies all oracles. It returns false after the first violation.
func (w *bgvWorld) roundTrip(c *engine.Chooser, bc bgvCase, typed interface{}, want []uint64, deep bool) bool {
	t, n := w.t, w.n
	dom := "coeff"
	if bc.batched {
		dom = "batched"
	}
	ty := "uint64"
	if bc.signed {
		ty = "int64"
	}
	sig := fmt.Sprintf("C07/bgv/%s/%s", dom, ty)
	// Parameter sets with Q_level/2 < t <= Q_level are accepted by bgv.NewParameters (it only refuses t > Q[0]),
	// but a plaintext at that level cannot hold residues in [0,t) once they are centred mod Q_level. The leaves
	// in that corner get their own signature so that the finding does not hide anything else.
	if q := uni.QAtLevel(w.p.Parameters, bc.level); new(big.Int).Lsh(new(big.Int).SetUint64(t), 1).Cmp(q) > 0 {
		sig = "C07/bgv/plaintext-modulus-above-half-Q-at-level"
	}
	pt := bgv.NewPlaintext(w.p, bc.level)
	pt.IsBatched = bc.batched
	pt.Scale = w.p.NewScale(bc.scale)
	// dirty the plaintext: encoding must not depend on previous content ("unspecified slots decode to zero")
	for i := range pt.Value.Coeffs {
		for j := range pt.Value.Coeffs[i] {
			pt.Value.Coeffs[i][j] = uint64(7*i+3*j+1) % w.p.Q()[i]
		}
	}
	err, pan := uni.Try(func() error { return w.ecd.Encode(typed, pt) })
	if pan != nil || err != nil {
		failD(c, sig+"/encode-failed", "%v len=%d: Encode err=%v panic=%v", bc, len(want), err, pan)
		return false
	}
	full := make([]uint64, n) // residues expected in every slot (zeros after len)
	copy(full, want)

	// unsigned decode, full length
	gotU := make([]uint64, n)
	err, pan = uni.Try(func() error { return w.ecd.Decode(pt, gotU) })
	if pan != nil || err != nil {
		failD(c, sig+"/decode-failed", "%v: Decode([]uint64) err=%v panic=%v", bc, err, pan)
		return false
	}
	for j := range full {
		if gotU[j] != full[j] {
			what := "value"
			if j >= len(want) {
				what = "unspecified-slot-not-zero"
			}
			failD(c, sig+"/"+what, "%v len=%d: slot %d decodes to %d, want %d (input %v)", bc, len(want), j, gotU[j], full[j], typed)
			return false
		}
	}
	// signed decode, full length: congruent and of absolute value at most (t+1)/2
	gotI := make([]int64, n)
	err, pan = uni.Try(func() error { return w.ecd.Decode(pt, gotI) })
	if pan != nil || err != nil {
		failD(c, sig+"/decode-failed", "%v: Decode([]int64) err=%v panic=%v", bc, err, pan)
		return false
	}
	lim := int64((t + 1) / 2)
	for j := range full {
		if bgvu.I64ToT(gotI[j], t) != full[j] || gotI[j] > lim || gotI[j] < -lim {
			failD(c, sig+"/signed-decode", "%v len=%d: slot %d decodes (signed) to %d, want a representative of %d mod %d within +-%d", bc, len(want), j, gotI[j], full[j], t, lim)
			return false
		}
	}
	if !deep {
		return true
	}
	// the encoded polynomial itself, recovered without the decoder
	m, off := w.plainCoeffs(pt)
	if off {
		failD(c, sig+"/outside-subring", "%v len=%d: the encoded polynomial has non-zero coefficients outside Z_t[X^%d]", bc, len(want), w.gap)
		return false
	}
	for j := range full {
		var got uint64
		if bc.batched {
			got = evalAt(m, w.roots[j], t) // slot j = evaluation at the j-th point of the orbit
		} else {
			got = m[j]
		}
		if exp := ref.MulMod(full[j], bc.scale%t, t); got != exp {
			failD(c, sig+"/encoded-polynomial", "%v len=%d: slot/coefficient %d of the encoded polynomial is %d, want value*scale = %d", bc, len(want), j, got, exp)
			return false
		}
	}
	return true
}

// typedVector builds the slice handed to the encoder and its residues.
func typedU(v []uint64, t uint64) (interface{}, []uint64) {
	r := make([]uint64, len(v))
	for i, x := range v {
		r[i] = x % t
	}
	return append([]uint64(nil), v...), r
}

func typedI(v []int64, t uint64) (interface{}, []uint64) {
	r := make([]uint64, len(v))
	for i, x := range v {
		r[i] = bgvu.I64ToT(x, t)
	}
	return append([]int64(nil), v...), r
}

// structureScenario: the slots are the evaluations at the orbit psi^(5^j) (row 0) and psi^(-5^j) (row 1) of a
// primitive 2n-th root of unity psi — the documented 2 x n/2 matrix on which X -> X^(5^k) rotates the rows and
// X -> X^-1 swaps them.
func bgvStructureScenario(cf bgvu.Conf) engine.Scenario {
	return engine.Scenario{Name: "bgv/" + cf.Name + "/slot-structure", Bound: -1, Fn: func(c *engine.Chooser) {
		w := getBgvWorld(cf)
		t, n := w.t, w.n
		psi := w.roots[0]
		c.Cover("bgv-gap", fmt.Sprint(w.gap))
		if ref.PowMod(psi, uint64(n), t) != t-1 {
			failD(c, "C07/bgv/slot-order", "slot 0 evaluates at %d which is not a primitive %d-th root of unity mod %d", psi, 2*n, t)
			return
		}
		pow := uint64(1)
		for j := 0; j < n/2; j++ {
			r0 := ref.PowMod(psi, pow, t)
			r1 := ref.InvMod(r0, t)
			if w.roots[j] != r0 || w.roots[n/2+j] != r1 {
				failD(c, "C07/bgv/slot-order", "slot (row 0/1, column %d) evaluates at %d/%d, documented orbit psi^(5^%d)=%d and its inverse %d", j, w.roots[j], w.roots[n/2+j], j, r0, r1)
				return
			}
			pow = pow * 5 % uint64(2*n)
		}
		c.Outcome("structure", cf.Name, w.roots)
		c.Count(n)
	}}
}

func bgvRoundTripScenario(cf bgvu.Conf, batched, signed bool) engine.Scenario {
	name := fmt.Sprintf("bgv/%s/roundtrip/batched=%v/signed=%v", cf.Name, batched, signed)
	return engine.Scenario{Name: name, Bound: -1, Fn: func(c *engine.Chooser) {
		w := getBgvWorld(cf)
		t, n := w.t, w.n
		level := c.Choose(w.L+1, "level")
		si := c.Choose(len(w.scales), "scale")
		bc := bgvCase{batched: batched, signed: signed, level: level, scale: w.scales[si]}
		c.Cover("bgv-t", cf.Name)
		c.Cover("bgv-domain", map[bool]string{true: "batched", false: "coeff"}[batched])
		c.Cover("bgv-type", map[bool]string{true: "int64", false: "uint64"}[signed])
		c.Cover("bgv-level", fmt.Sprint(level))
		c.Cover("bgv-scale", []string{"1", "2", "t-1", "(t+1)/2", "q1 mod t"}[si])
		au, ai := u64Alphabet(t), i64Alphabet(t)
		cnt := 0
		for ln := 0; ln <= n; ln++ {
			// rotating boundary alphabet: every boundary value visits every position; plus a ramp of distinct values
			np := len(au)
			if signed {
				np = len(ai)
			}
			for k := 0; k <= np; k++ {
				var typed interface{}
				var want []uint64
				if signed {
					v := make([]int64, ln)
					for j := range v {
						if k == np {
							v[j] = int64(j+2) * (1 - 2*int64(j%2))
						} else {
							v[j] = ai[(j+k)%np]
						}
					}
					typed, want = typedI(v, t)
				} else {
					v := make([]uint64, ln)
					for j := range v {
						if k == np {
							v[j] = uint64(j + 2)
						} else {
							v[j] = au[(j+k)%np]
						}
					}
					typed, want = typedU(v, t)
				}
				if !w.roundTrip(c, bc, typed, want, k%3 == 0 || ln == n) {
					return
				}
				cnt++
				if ln == 0 {
					c.Cover("bgv-len", "0")
				} else if ln == n {
					c.Cover("bgv-len", "full")
				} else if ln == 1 {
					c.Cover("bgv-len", "1")
				}
				if ln == 0 {
					break // the empty vector has one pattern
				}
			}
		}
		c.Outcome(name, level, si)
		c.Count(cnt)
	}}
}

// exhaustScenario (t = 17, 97): every single-slot vector over the whole of Z_t at every position, and every
// vector over the alphabet {0, 1, t-1} of length <= 8 (thorough: <= 10).
func bgvExhaustScenario(cf bgvu.Conf, batched, signed bool, tier string) engine.Scenario {
	name := fmt.Sprintf("bgv/%s/exhaust/batched=%v/signed=%v", cf.Name, batched, signed)
	return engine.Scenario{Name: name, Bound: -1, Fn: func(c *engine.Chooser) {
		w := getBgvWorld(cf)
		t, n := w.t, w.n
		part := c.Choose(2, "part")
		bc := bgvCase{batched: batched, signed: signed, level: c.Choose(2, "level") * w.L, scale: w.scales[c.Choose(2, "scale")*4]}
		cnt := 0
		mk := func(res []uint64) (interface{}, []uint64) {
			if signed {
				v := make([]int64, len(res))
				for i, x := range res {
					v[i] = bgvu.Centered(x, t)
				}
				return typedI(v, t)
			}
			return typedU(res, t)
		}
		if part == 0 {
			c.Cover("bgv-exhaust", "single-slot")
			for pos := 0; pos < n; pos++ {
				for x := uint64(0); x < t; x++ {
					res := make([]uint64, pos+1)
					res[pos] = x
					typed, want := mk(res)
					if !w.roundTrip(c, bc, typed, want, x < 3) {
						return
					}
					cnt++
				}
			}
		} else {
			c.Cover("bgv-exhaust", "alphabet3")
			al := []uint64{0, 1, t - 1}
			maxLen := 8
			if tier == "thorough" {
				maxLen = 10
			}
			if maxLen > n {
				maxLen = n
			}
			for ln := 1; ln <= maxLen; ln++ {
				tot := 1
				for i := 0; i < ln; i++ {
					tot *= 3
				}
				for code := 0; code < tot; code++ {
					res := make([]uint64, ln)
					x := code
					for i := range res {
						res[i] = al[x%3]
						x /= 3
					}
					typed, want := mk(res)
					if !w.roundTrip(c, bc, typed, want, code%97 == 0) {
						return
					}
					cnt++
				}
			}
		}
		c.Outcome(name, part, bc.level, bc.scale)
		c.Count(cnt)
	}}
}

// shortDecodeScenario: Decode "on an IntegerSlice of size at most N": output slices shorter than the slot count
// must receive the leading slots (no panic).
func bgvShortDecodeScenario(cf bgvu.Conf) engine.Scenario {
	name := "bgv/" + cf.Name + "/decode-into-short-slice"
	return engine.Scenario{Name: name, Bound: -1, Fn: func(c *engine.Chooser) {
		w := getBgvWorld(cf)
		t, n := w.t, w.n
		batched := c.Choose(2, "domain") == 0
		signed := c.Bool("signed")
		outLen := []int{0, 1, 3, n - 1, n}[c.Choose(5, "outlen")]
		pt := bgv.NewPlaintext(w.p, w.L)
		pt.IsBatched = batched
		v := make([]uint64, n)
		for j := range v {
			v[j] = uint64(j+2) % t
		}
		if err := w.ecd.Encode(v, pt); err != nil {
			panic(err)
		}
		dom := map[bool]string{true: "batched", false: "coeff"}[batched]
		ty := map[bool]string{true: "int64", false: "uint64"}[signed]
		c.Cover("bgv-shortdecode", dom+"/"+ty)
		var got []uint64
		err, pan := uni.Try(func() error {
			if signed {
				o := make([]int64, outLen)
				if e := w.ecd.Decode(pt, o); e != nil {
					return e
				}
				for _, x := range o {
					got = append(got, bgvu.I64ToT(x, t))
				}
				return nil
			}
			o := make([]uint64, outLen)
			got = o
			return w.ecd.Decode(pt, o)
		})
		if pan != nil {
			failD(c, fmt.Sprintf("C07/bgv/%s/%s/decode-into-short-slice/panic", dom, ty), "Decode into a slice of %d < %d entries panicked: %v", outLen, n, pan)
			return
		}
		if err != nil {
			c.Cover("rejected", "bgv short decode")
			return
		}
		for j := range got {
			if got[j] != v[j] {
				failD(c, fmt.Sprintf("C07/bgv/%s/%s/decode-into-short-slice/value", dom, ty), "slot %d decodes to %d, want %d", j, got[j], v[j])
				return
			}
		}
		c.Outcome(name, batched, signed, outLen)
	}}
}

// productScenario: encoded plaintexts multiply slot-wise. Two independent routes:
//
//	(1) EncodeRingT both vectors, multiply the polynomials over Z_t with the schoolbook negacyclic product,
//	    DecodeRingT at scale s1*s2;
//	(2) Embed (no t^-1) into R_Q, multiply there (NTT, pointwise), RingQ2T without scaling, DecodeRingT.
func bgvProductScenario(cf bgvu.Conf) engine.Scenario {
	name := "bgv/" + cf.Name + "/product"
	return engine.Scenario{Name: name, Bound: -1, Fn: func(c *engine.Chooser) {
		w := getBgvWorld(cf)
		t, n := w.t, w.n
		p := w.p
		s1 := w.scales[c.Choose(len(w.scales), "scale1")]
		s2 := w.scales[c.Choose(3, "scale2")]
		signed := c.Bool("signed")
		ringT := p.RingT()
		cnt := 0
		au := u64Alphabet(t)
		// the scale of the product / quotient as the library computes it (rlwe.Scale.Mul / Div modulo t; for the large
		// plaintext moduli the residues t-1, (t+1)/2 multiply far beyond 2^64): must be the product / quotient in Z_t
		sProd := p.NewScale(s1).Mul(p.NewScale(s2))
		sQuo := p.NewScale(s1).Div(p.NewScale(s2))
		if got, exp := sProd.Uint64(), ref.MulMod(s1%t, s2%t, t); got != exp || !sProd.Value.IsInt() {
			failD(c, "C07/bgv/scale-arithmetic", "Scale(%d).Mul(Scale(%d)) mod %d = %s, want %d", s1, s2, t, sProd.Value.Text('f', 0), exp)
			return
		}
		if got, exp := sQuo.Uint64(), ref.MulMod(s1%t, ref.InvMod(s2%t, t), t); got != exp || !sQuo.Value.IsInt() {
			failD(c, "C07/bgv/scale-arithmetic", "Scale(%d).Div(Scale(%d)) mod %d = %s, want %d", s1, s2, t, sQuo.Value.Text('f', 0), exp)
			return
		}
		c.Cover("bgv-scale-arithmetic", map[bool]string{true: "residues-above-2^32", false: "small"}[s1 > 1<<32 && s2 > 1<<32])
		for k := 0; k < 6; k++ {
			a := make([]uint64, n)
			b := make([]uint64, n-k) // shorter second operand: unspecified slots are zero
			for j := range a {
				a[j] = uint64(3+j*(k+1)) % t
				if k >= 3 {
					a[j] = au[(j+k)%len(au)]
				}
			}
			for j := range b {
				b[j] = uint64(5+2*j+k) % t
			}
			var ta, tb interface{}
			var ra, rb []uint64
			if signed {
				va, vb := make([]int64, len(a)), make([]int64, len(b))
				for j := range a {
					va[j] = bgvu.Centered(a[j]%t, t)
				}
				for j := range b {
					vb[j] = bgvu.Centered(b[j]%t, t)
				}
				ta, ra = typedI(va, t)
				tb, rb = typedI(vb, t)
			} else {
				ta, ra = typedU(a, t)
				tb, rb = typedU(b, t)
			}
			want := bgvu.VecMul(ra, bgvu.PadModU(rb, n, t), t)
			// route 1
			pa, pb := ringT.NewPoly(), ringT.NewPoly()
			if err := w.ecd.EncodeRingT(ta, p.NewScale(s1), pa); err != nil {
				failD(c, "C07/bgv/EncodeRingT/error", "%v", err)
				return
			}
			if err := w.ecd.EncodeRingT(tb, p.NewScale(s2), pb); err != nil {
				failD(c, "C07/bgv/EncodeRingT/error", "%v", err)
				return
			}
			prod := ringT.NewPoly()
			copy(prod.Coeffs[0], ref.NegacyclicMul(pa.Coeffs[0], pb.Coeffs[0], t))
			got := make([]uint64, n)
			if err := w.ecd.DecodeRingT(prod, sProd, got); err != nil {
				failD(c, "C07/bgv/DecodeRingT/error", "%v", err)
				return
			}
			if !bgvu.VecEq(got, want) {
				failD(c, "C07/bgv/product/ringT", "scales %d,%d: product of the two encodings over Z_t decodes to %v, want the slot-wise product %v", s1, s2, got, want)
				return
			}
			// route 2 (needs n*t^2 < Q/2 so that the integer product does not wrap)
			level := w.L
			bound := new(big.Int).Mul(new(big.Int).SetUint64(t), new(big.Int).SetUint64(t))
			bound.Mul(bound, big.NewInt(int64(2*n)))
			if bound.Cmp(uni.QAtLevel(p.Parameters, level)) < 0 {
				rq := p.RingQ().AtLevel(level)
				qa, qb := rq.NewPoly(), rq.NewPoly()
				md := &rlwe.MetaData{}
				md.IsNTT, md.IsBatched = true, true
				md.Scale = p.NewScale(s1)
				if err := w.ecd.Embed(ta, md, qa); err != nil {
					failD(c, "C07/bgv/Embed/error", "%v", err)
					return
				}
				md2 := *md
				md2.Scale = p.NewScale(s2)
				if err := w.ecd.Embed(tb, &md2, qb); err != nil {
					failD(c, "C07/bgv/Embed/error", "%v", err)
					return
				}
				rq.MulCoeffsBarrett(qa, qb, qa)
				rq.INTT(qa, qa)
				pT := ringT.NewPoly()
				w.ecd.RingQ2T(level, false, qa, pT)
				got2 := make([]uint64, n)
				_ = w.ecd.DecodeRingT(pT, p.NewScale(ref.MulMod(s1%t, s2%t, t)), got2)
				if !bgvu.VecEq(got2, want) {
					failD(c, "C07/bgv/product/ringQ", "scales %d,%d: product of the two embeddings in R_Q decodes to %v, want %v", s1, s2, got2, want)
					return
				}
				c.Cover("bgv-product", "ringQ")
			}
			c.Cover("bgv-product", "ringT")
			cnt++
		}
		c.Outcome(name, s1, s2, signed)
		c.Count(cnt)
	}}
}

// embedScenario: Embed / EmbedScale into ring.Poly and ringqp.Poly under all flag combinations equal the lift of
// the EncodeRingT polynomial (coefficient k at X^(k*gap)), in the NTT / Montgomery domains the metadata asks for;
// RingT2Q / RingQ2T invert each other with both scaling flags.
func bgvEmbedScenario(cf bgvu.Conf) engine.Scenario {
	name := "bgv/" + cf.Name + "/embed"
	return engine.Scenario{Name: name, Bound: -1, Fn: func(c *engine.Chooser) {
		w := getBgvWorld(cf)
		t, n := w.t, w.n
		p := w.p
		level := c.Choose(w.L+1, "level")
		ntt := c.Choose(2, "ntt") == 0
		mont := c.Bool("montgomery")
		scaleUp := c.Bool("scaleUp")
		target := c.Choose(4, "target") // 0 ring.Poly, 1 ringqp with P (top level), 2 ringqp without P, 3 ringqp with P at level 0
		s := w.scales[c.Choose(2, "scale")*3]
		ln := []int{n, 3, 0}[c.Choose(3, "len")]
		v := make([]int64, ln)
		for j := range v {
			v[j] = int64(j+2) * (1 - 2*int64(j%2))
		}
		ringT := p.RingT()
		pT := ringT.NewPoly()
		if err := w.ecd.EncodeRingT(v, p.NewScale(s), pT); err != nil {
			failD(c, "C07/bgv/EncodeRingT/error", "%v", err)
			return
		}
		md := &rlwe.MetaData{}
		md.IsNTT, md.IsMontgomery, md.IsBatched = ntt, mont, true
		md.Scale = p.NewScale(s)
		rq := p.RingQ().AtLevel(level)
		var polQ, polP ring.Poly
		var out interface{}
		levelP := -1
		switch target {
		case 0:
			polQ = rq.NewPoly()
			out = polQ
		case 1:
			levelP = p.MaxLevelP()
			qp := ringqp.Poly{Q: rq.NewPoly(), P: p.RingP().AtLevel(levelP).NewPoly()}
			polQ, polP, out = qp.Q, qp.P, qp
		case 3:
			if p.MaxLevelP() == 0 {
				c.Skip("parameter set has a single auxiliary prime")
				return
			}
			levelP = 0
			qp := ringqp.Poly{Q: rq.NewPoly(), P: p.RingP().AtLevel(0).NewPoly()}
			polQ, polP, out = qp.Q, qp.P, qp
		default:
			qp := ringqp.Poly{Q: rq.NewPoly()}
			polQ, out = qp.Q, qp
		}
		c.Cover("bgv-embed", fmt.Sprintf("target=%d scaleUp=%v", target, scaleUp))
		err, pan := uni.Try(func() error { return w.ecd.EmbedScale(v, scaleUp, md, out) })
		if pan != nil || err != nil {
			failD(c, "C07/bgv/EmbedScale/error", "level=%d ntt=%v mont=%v scaleUp=%v target=%d: err=%v panic=%v", level, ntt, mont, scaleUp, target, err, pan)
			return
		}
		// expected integer polynomial: m_k at X^(k gap); with scaleUp multiplied by t^-1 mod Q_level
		Q := uni.QAtLevel(p.Parameters, level)
		tInv := new(big.Int).ModInverse(new(big.Int).SetUint64(t), Q)
		got := uni.PolyCoeffs(p.RingQ(), polQ, level, ntt, mont)
		for j := 0; j < w.N; j++ {
			exp := new(big.Int)
			if j%w.gap == 0 {
				exp.SetUint64(pT.Coeffs[0][j/w.gap])
				if scaleUp {
					exp.Mul(exp, tInv).Mod(exp, Q)
				}
			}
			if got[j].Cmp(exp) != 0 {
				failD(c, "C07/bgv/EmbedScale/Q-part", "level=%d ntt=%v mont=%v scaleUp=%v target=%d len=%d: coefficient %d of the Q part is %v, want %v", level, ntt, mont, scaleUp, target, ln, j, got[j], exp)
				return
			}
		}
		if levelP >= 0 && !scaleUp {
			// Embed (scaleUp=false): the P part carries the same small integer polynomial. (With scaleUp=true the
			// documentation only speaks of t^-1 mod Q; the P part is not judged.)
			gotP := uni.PolyCoeffs(p.RingP(), polP, levelP, ntt, mont)
			for j := 0; j < w.N; j++ {
				exp := new(big.Int)
				if j%w.gap == 0 {
					exp.SetUint64(pT.Coeffs[0][j/w.gap])
				}
				if gotP[j].Cmp(exp) != 0 {
					failD(c, "C07/bgv/Embed/P-part", "level=%d ntt=%v mont=%v len=%d: coefficient %d of the P part is %v, want %v", level, ntt, mont, ln, j, gotP[j], exp)
					return
				}
			}
		}
		// RingT2Q / RingQ2T are inverse to each other for both flags
		for _, su := range []bool{false, true} {
			q := rq.NewPoly()
			w.ecd.RingT2Q(level, su, pT, q)
			back := ringT.NewPoly()
			w.ecd.RingQ2T(level, su, q, back)
			for k := 0; k < n; k++ {
				// congruence only: RingQ2T documents no output range
				if back.Coeffs[0][k]%t != pT.Coeffs[0][k]%t {
					sg := "C07/bgv/RingT2Q-RingQ2T"
					if new(big.Int).Lsh(new(big.Int).SetUint64(t), 1).Cmp(Q) > 0 {
						sg = "C07/bgv/plaintext-modulus-above-half-Q-at-level/value"
					}
					failD(c, sg, "level=%d scale flag=%v: coefficient %d comes back as %d, want %d", level, su, k, back.Coeffs[0][k], pT.Coeffs[0][k])
					return
				}
			}
		}
		c.Outcome(name, level, ntt, mont, scaleUp, target, s, ln)
		c.Count(3)
	}}
}

// obtainedScenario (BGV): NewEncoder, ShallowCopy, ShallowCopy of a ShallowCopy, ShallowCopy of a used encoder —
// NewEncoder and ShallowCopy allocate their scratch buffers (the big-integer buffer of the gap > 1 decoder in
// particular) under separate conditions. Every level, both domains, both element types, full / short / empty vectors.
func bgvObtainedScenario(cf bgvu.Conf) engine.Scenario {
	name := "bgv/" + cf.Name + "/obtained"
	return engine.Scenario{Name: name, Bound: -1, Fn: func(c *engine.Chooser) {
		w := getBgvWorld(cf)
		t, n := w.t, w.n
		how := c.Choose(4, "obtained")
		level := c.Choose(w.L+1, "level")
		batched := c.Choose(2, "domain") == 0
		signed := c.Bool("signed")
		fresh := bgv.NewEncoder(w.p)
		use := func(e *bgv.Encoder) {
			pt := bgv.NewPlaintext(w.p, w.L)
			v := make([]uint64, n)
			for j := range v {
				v[j] = uint64(3*j+1) % t
			}
			if err := e.Encode(v, pt); err != nil {
				panic(err)
			}
			if err := e.Decode(pt, make([]uint64, n)); err != nil {
				panic(err)
			}
		}
		e := fresh
		switch how {
		case 1:
			e = fresh.ShallowCopy()
		case 2:
			e = fresh.ShallowCopy().ShallowCopy()
		case 3:
			use(fresh)
			e = fresh.ShallowCopy()
		}
		c.Cover("bgv-obtained", []string{"new", "copy", "copy-of-copy", "copy-of-used"}[how])
		c.Cover("bgv-obtained-gap", fmt.Sprint(w.gap))
		old := w.ecd
		w.ecd = e
		defer func() { w.ecd = old }()
		bc := bgvCase{batched: batched, signed: signed, level: level, scale: w.scales[(level+how)%len(w.scales)]}
		cnt := 0
		for _, ln := range []int{n, 3, 0} {
			res := make([]uint64, ln)
			for j := range res {
				res[j] = (uint64(j)*5 + 2) % t
			}
			var typed interface{}
			var want []uint64
			if signed {
				v := make([]int64, ln)
				for j := range v {
					v[j] = bgvu.Centered(res[j], t)
				}
				typed, want = typedI(v, t)
			} else {
				typed, want = typedU(res, t)
			}
			if !w.roundTrip(c, bc, typed, want, true) {
				return
			}
			cnt++
		}
		c.Outcome(name, how, level, batched, signed)
		c.Count(cnt)
	}}
}

// serializeScenario (BGV): encode -> MarshalBinary -> UnmarshalBinary into a PRE-ALLOCATED plaintext of the other
// encoding domain (bgv.NewPlaintext defaults to IsBatched=true; the coefficient-domain sender has false, and vice
// versa), other scale and higher level -> decode. The receiver must decode to what the sender encoded: a flag,
// scale or level that survives in the receiver sends the decoder down the wrong path.
func bgvSerializeScenario(cf bgvu.Conf) engine.Scenario {
	name := "bgv/" + cf.Name + "/serialize-into-preallocated"
	return engine.Scenario{Name: name, Bound: -1, Fn: func(c *engine.Chooser) {
		w := getBgvWorld(cf)
		t, n := w.t, w.n
		batched := c.Choose(2, "sender-domain") == 1 // choice 0: coefficient-domain sender into a batched receiver
		level := c.Choose(w.L+1, "level")
		scale := w.scales[c.Choose(3, "scale")+1]
		c.Cover("serialize", fmt.Sprintf("bgv sender-batched=%v", batched))
		pt := bgv.NewPlaintext(w.p, level)
		pt.IsBatched = batched
		pt.Scale = w.p.NewScale(scale)
		v := make([]uint64, n)
		for j := range v {
			v[j] = uint64(7*j+3) % t
		}
		if err := w.ecd.Encode(v, pt); err != nil {
			panic(err)
		}
		data, err := pt.MarshalBinary()
		if err != nil {
			failD(c, "C07/bgv/serialize/marshal-error", "%v", err)
			return
		}
		recv := bgv.NewPlaintext(w.p, w.L) // pre-allocated: top level, default scale
		recv.IsBatched = !batched
		dirty(recv.Value, w.p.Q())
		if err, pan := uni.Try(func() error { return recv.UnmarshalBinary(data) }); err != nil || pan != nil {
			failD(c, "C07/bgv/serialize/unmarshal-error", "sender batched=%v level=%d: err=%v panic=%v", batched, level, err, pan)
			return
		}
		got := make([]uint64, n)
		if err, pan := uni.Try(func() error { return w.ecd.Decode(recv, got) }); err != nil || pan != nil {
			failD(c, "C07/bgv/serialize/decode-error", "sender batched=%v level=%d: err=%v panic=%v", batched, level, err, pan)
			return
		}
		if !bgvu.VecEq(got, v) {
			failD(c, "C07/bgv/serialize/value", "sender batched=%v level=%d scale=%d -> receiver pre-allocated with IsBatched=%v: decodes to %v, sender encoded %v (receiver metadata after UnmarshalBinary: IsBatched=%v scale=%d level=%d)",
				batched, level, scale, !batched, got, v, recv.IsBatched, recv.Scale.Uint64(), recv.Level())
			return
		}
		c.Outcome(name, batched, level, scale)
	}}
}

// allScalesScenario: EncodeRingT/DecodeRingT and Encode/Decode with EVERY unit of Z_t as scale (t <= 257; a spread
// of 64 scales including the extremes for the large moduli), both element types, batched and coefficient domains,
// full and short vectors.
func bgvAllScalesScenario(cf bgvu.Conf) engine.Scenario {
	name := "bgv/" + cf.Name + "/every-scale"
	return engine.Scenario{Name: name, Bound: -1, Fn: func(c *engine.Chooser) {
		w := getBgvWorld(cf)
		t, n := w.t, w.n
		signed := c.Bool("signed")
		batched := c.Choose(2, "domain") == 0
		level := []int{w.L, 0}[c.Choose(2, "level")]
		var scales []uint64
		if t <= 257 {
			for s := uint64(1); s < t; s++ {
				scales = append(scales, s)
			}
			c.Cover("bgv-every-scale", "all-units")
		} else {
			for i := uint64(0); i < 32; i++ {
				scales = append(scales, 1+i, t-1-i)
			}
			scales = append(scales, t/2, t/2+1, t/3, 1<<20)
			c.Cover("bgv-every-scale", "spread")
		}
		ringT := w.p.RingT()
		cnt := 0
		for _, s := range scales {
			for _, ln := range []int{n, 3} {
				res := make([]uint64, ln)
				for j := range res {
					res[j] = (uint64(j)*7 + 2 + s) % t
				}
				var typed interface{}
				var want []uint64
				if signed {
					v := make([]int64, ln)
					for j := range v {
						v[j] = bgvu.Centered(res[j], t)
					}
					typed, want = typedI(v, t)
				} else {
					typed, want = typedU(res, t)
				}
				if batched {
					// ring-T level
					pT := ringT.NewPoly()
					for j := range pT.Coeffs[0] {
						pT.Coeffs[0][j] = uint64(j+1) % t // stale content
					}
					if err := w.ecd.EncodeRingT(typed, w.p.NewScale(s), pT); err != nil {
						failD(c, "C07/bgv/EncodeRingT/error", "scale %d: %v", s, err)
						return
					}
					full := make([]uint64, n)
					copy(full, want)
					for j := 0; j < n; j++ {
						if got, exp := evalAt(pT.Coeffs[0], w.roots[j], t), ref.MulMod(full[j], s, t); got != exp {
							failD(c, "C07/bgv/EncodeRingT/value", "scale %d len %d signed=%v: slot %d of the encoded polynomial evaluates to %d, want value*scale = %d", s, ln, signed, j, got, exp)
							return
						}
					}
					gotU := make([]uint64, n)
					if err := w.ecd.DecodeRingT(pT, w.p.NewScale(s), gotU); err != nil || !bgvu.VecEq(gotU, full) {
						failD(c, "C07/bgv/DecodeRingT/value", "scale %d len %d: DecodeRingT gives %v (err %v), want %v", s, ln, gotU, err, full)
						return
					}
					gotI := make([]int64, n)
					if err := w.ecd.DecodeRingT(pT, w.p.NewScale(s), gotI); err != nil {
						failD(c, "C07/bgv/DecodeRingT/error", "scale %d: %v", s, err)
						return
					}
					lim := int64((t + 1) / 2)
					for j := range gotI {
						if bgvu.I64ToT(gotI[j], t) != full[j] || gotI[j] > lim || gotI[j] < -lim {
							failD(c, "C07/bgv/DecodeRingT/signed", "scale %d: slot %d decodes (signed) to %d, want a representative of %d within +-%d", s, j, gotI[j], full[j], lim)
							return
						}
					}
				}
				if !w.roundTrip(c, bgvCase{batched: batched, signed: signed, level: level, scale: s}, typed, want, s%16 == 1) {
					return
				}
				cnt++
			}
		}
		c.Outcome(name, signed, batched, level)
		c.Count(cnt)
	}}
}

// cornerScenario: plaintext modulus between Q[0]/2 and Q[0] (t the 60-bit prime below 2^60, Q the primes just above
// 2^60). A level-0 plaintext cannot hold residues in [0,t) there, so the parameters must either be refused by
// bgv.NewParameters (counted as rejected) or, if accepted, encode/decode correctly at every level. The accepted-and-
// wrong case is the triaged finding C07/bgv/plaintext-modulus-above-half-Q-at-level (signature set in roundTrip).
func bgvCornerScenario() engine.Scenario {
	cf := bgvu.Conf{Name: "t60b-corner-t-above-half-q0", LogN: 4, QBits: 60, NQ: 3, PBits: 60, NP: 1, T: bgvu.PlainModulus(4, 60), QAbove: true}
	return engine.Scenario{Name: "bgv/" + cf.Name, Bound: -1, Fn: func(c *engine.Chooser) {
		c.Cover("bgv-corner", "t>Q0/2")
		if _, err := cf.TryBuild(); err != nil {
			c.Cover("rejected", "bgv parameters with t > Q[0]/2")
			c.Outcome("corner", "rejected")
			return
		}
		w := getBgvWorld(cf)
		bc := bgvCase{batched: c.Choose(2, "domain") == 0, signed: c.Bool("signed"), level: c.Choose(w.L+1, "level"), scale: w.scales[c.Choose(3, "scale")]}
		t := w.t
		for _, res := range [][]uint64{{1}, {1, 2, t - 1, t - 2}, {t / 2, t/2 + 1, 3}} {
			var typed interface{}
			var want []uint64
			if bc.signed {
				v := make([]int64, len(res))
				for i, x := range res {
					v[i] = bgvu.Centered(x, t)
				}
				typed, want = typedI(v, t)
			} else {
				typed, want = typedU(res, t)
			}
			if !w.roundTrip(c, bc, typed, want, true) {
				return
			}
		}
		c.Outcome("corner", bc.String())
		c.Count(3)
	}}
}

func bgvScenarios(tier string) []engine.Scenario {
	var scs []engine.Scenario
	scs = append(scs, bgvCornerScenario())
	for _, cf := range bgvConfigs(tier) {
		scs = append(scs, bgvStructureScenario(cf), bgvShortDecodeScenario(cf), bgvProductScenario(cf), bgvEmbedScenario(cf), bgvAllScalesScenario(cf), bgvObtainedScenario(cf), bgvSerializeScenario(cf))
		for _, b := range []bool{true, false} {
			for _, s := range []bool{false, true} {
				scs = append(scs, bgvRoundTripScenario(cf, b, s))
				if cf.T <= 97 {
					scs = append(scs, bgvExhaustScenario(cf, b, s, tier))
				}
			}
		}
	}
	return scs
}
