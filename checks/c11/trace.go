package main

import (
	"fmt"
	"math"
	"math/big"

	"github.com/tuneinsight/lattigo/v6/core/rlwe"
	"github.com/tuneinsight/lattigo/v6/ring"
	"github.com/tuneinsight/lattigo/v6/schemes/bgv"
	"github.com/tuneinsight/lattigo/v6/schemes/ckks"

	"verif/engine"
	"verif/ref"
	"verif/uni"
)

// Trace is documented in the coefficient domain (core/rlwe/inner_sum.go): "Monomial X^k vanishes if k is
// not divisible by (N/n), otherwise it is multiplied by (N/n). Ciphertext is pre-multiplied by (N/n)^-1
// to remove the (N/n) factor": the output polynomial keeps the coefficients whose index is a multiple of
// the gap N/n and zeroes the others. The worked example is the full trace (logN = 0: only X^0 survives);
// ckks.TraceNew fixes the convention for the other depths: "for log(n) = logSlots", i.e. the surviving
// monomials are the 2·2^logN coefficients a plaintext with 2^logN (complex) slots occupies: gap =
// N / 2^(logN+1).
func traceGap(w *world, logN int) int {
	N := 1 << w.logN
	if logN == 0 {
		return N
	}
	if w.rt == ring.ConjugateInvariant {
		return N >> logN // 2^logN real slots occupy 2^logN coefficients of the conjugate-invariant ring
	}
	return N >> (logN + 1)
}

// encryptCoeffs encrypts the polynomial with the given small integer coefficients (coefficient encoding).
func (w *world) encryptCoeffs(co []int64) *rlwe.Ciphertext {
	if w.scheme == "bgv" {
		pt := bgv.NewPlaintext(w.bp, w.level())
		pt.IsBatched = false
		if err := w.bec.Encode(co, pt); err != nil {
			panic(err)
		}
		ct, err := rlwe.NewEncryptor(w.bp, w.sk).EncryptNew(pt)
		if err != nil {
			panic(err)
		}
		return ct
	}
	x := w.ck
	pt := ckks.NewPlaintext(x.Params, w.level())
	pt.IsBatched = false
	f := make([]float64, len(co))
	for i := range co {
		f[i] = float64(co[i])
	}
	if err := x.Ecd.Encode(f, pt); err != nil {
		panic(err)
	}
	ct, err := rlwe.NewEncryptor(x.Params, w.sk).EncryptNew(pt)
	if err != nil {
		panic(err)
	}
	return ct
}

// compareCoeffs checks the coefficients of the decryption of ct.
func (w *world) compareCoeffs(c *engine.Chooser, sig string, ct *rlwe.Ciphertext, want []int64, b budget) bool {
	if w.scheme == "bgv" {
		pt := rlwe.NewDecryptor(w.bp, w.sk).DecryptNew(ct)
		got := make([]int64, len(want))
		if err := w.bec.Decode(pt, got); err != nil {
			c.Fail(sig+"/decode-error", "%s: %v", w.name, err)
			return false
		}
		t := int64(w.t)
		for i := range want {
			if ((got[i]-want[i])%t+t)%t != 0 {
				c.Fail(sig, "%s: coefficient %d = %d want %d (mod %d); got=%v", w.name, i, got[i], want[i], t, got)
				return false
			}
		}
		return true
	}
	x := w.ck
	pt := rlwe.NewDecryptor(x.Params, w.sk).DecryptNew(ct)
	lvl := pt.Level()
	co := uni.PolyCoeffs(x.Params.RingQ(), pt.Value, lvl, pt.IsNTT, false)
	Q := uni.QAtLevel(x.Params.Parameters, lvl)
	scale, _ := ct.Scale.Value.Float64()
	nb := x.NB
	// coefficient error <= max over roots of the error polynomial (inverse DFT is an average):
	// projected fresh noise + rounding of the coefficient encoding (1/2) + key-switch noise (undivided)
	eps := safety * (nb.Fresh() + 0.5 + float64(b.ks)*float64(b.terms)*nb.KeySwitch(lvl)) / scale
	for i := range want {
		f, _ := new(big.Float).SetInt(ref.Center(co[i], Q)).Float64()
		got := f / scale
		if d := math.Abs(got - float64(want[i])); !(d <= eps) {
			c.Fail(sig, "%s: coefficient %d = %.6g want %d, |diff|=%.3g > eps=%.3g", w.name, i, got, want[i], d, eps)
			return false
		}
	}
	return true
}

// traceScenario: every depth logN in [0, LogN-1], keys for exactly GaloisElementsForTrace(logN).
func traceScenario(w *world) engine.Scenario {
	name := "trace/" + w.name
	return engine.Scenario{Name: name, Bound: -1, Fn: func(c *engine.Chooser) {
		w.ensure(c)
		if w.gap > 1 {
			c.Cover("trace", "skipped-small-plaintext-ring") // coefficient encoding lives in the smaller ring: not judged here
			return
		}
		logN := c.Choose(w.logN, "logN")
		variant := c.Choose(2, "variant") // 0: Trace into a fresh ciphertext, 1: TraceNew wrapper (ckks) / in place
		coeff := c.Choose(2, "domain") == 1
		uni.Seed(c, name, logN, variant, coeff)
		N := 1 << w.logN
		co := make([]int64, N)
		for i := range co {
			co[i] = int64(i + 1)
		}
		var list []uint64
		if _, pan := uni.Try(func() error { list = w.listTrace(logN); return nil }); pan != nil {
			if w.rt == ring.ConjugateInvariant && logN == 0 {
				c.Cover("rejected", "trace-ci-logN0") // documented by the panic message: GaloisGen^-1 undefined in the CI ring
				return
			}
			c.Fail("C11/"+w.scheme+"/Trace/key-list-panics", "%s: GaloisElementsForTrace(%d) panics: %v", w.name, logN, pan)
			return
		}
		o := w.newOps(list)
		ct := w.encryptCoeffs(co)
		if coeff {
			w.toCoeff(ct)
		}
		var out *rlwe.Ciphertext
		var err error
		var pan interface{}
		switch {
		case variant == 0:
			out = ct.CopyNew()
			err, pan = uni.Try(func() error { return o.rl.Trace(ct, logN, out) })
		case o.traceNew != nil:
			err, pan = uni.Try(func() (e error) { out, e = o.traceNew(ct, logN); return })
		default:
			out = ct
			err, pan = uni.Try(func() error { return o.rl.Trace(ct, logN, ct) })
		}
		if err != nil || pan != nil {
			c.Fail("C11/"+w.scheme+"/Trace/failed-with-advertised-keys", "%s: Trace(logN=%d) with keys for exactly GaloisElementsForTrace: err=%v panic=%v", w.name, logN, err, pan)
			return
		}
		gap := traceGap(w, logN)
		want := make([]int64, N)
		for i := range want {
			if i%gap == 0 {
				want[i] = co[i]
			}
		}
		steps := 0
		for g := gap; g > 1; g >>= 1 {
			steps++
		}
		c.Note("logN=%d gap=%d keys=%v", logN, gap, list)
		if !w.compareCoeffs(c, "C11/"+w.scheme+"-"+rtName(w.rt)+"/Trace/value", out, want, budget{terms: gap, ks: steps + 1, div: 1}) {
			return
		}
		c.Cover("trace", fmt.Sprintf("%s-depth%d", w.scheme, w.logN-1-logN))
		c.Cover("sum", "Trace")
		c.Outcome(name, logN, want)
	}}
}
