// C11 — rotations and slot sums follow the Galois algebra; advertised Galois-key lists suffice.
//
//	algebra/*   GaloisElement / ModInvGaloisElement / SolveDiscreteLogGaloisElement on the whole group
//	rotate/*    every k in [-slots-1, slots+1] and extreme k, plain / New / hoisted / lazy variants, keys for
//	            exactly GaloisElement(k); conjugation / row swap with exactly the order-two element
//	sums/*      InnerSum, RotateAndAdd, PartialTracesSum, InnerFunction, Replicate for all (batch, n),
//	            keys from exactly the advertised list
//	average/*   ckks.Evaluator.Average for every batch size
//	trace/*     Trace / TraceNew for every depth
//	latekeys/*  keys inserted into the key set after the evaluator was built (no / another / the order-two / the same
//	            key at construction), used through plain, hoisted, lazy and shallow-copy entry points
//	userfn/*    BGV InnerFunction with a user function that multiplies (slot-wise products of groups)
//	automorphism/rlwe/*, rlwesums/rlwe/*  scheme-less RLWE with NTTFlag false and true: every element of the Galois
//	            group, PartialTracesSum / Replicate / InnerFunction(user function) / Trace in the coefficient domain
//	packing/rlwe/*  ring-packing Expand and Pack with keys from exactly GaloisElementsForExpand / ForPack
package main

import (
	"fmt"
	"time"

	"github.com/tuneinsight/lattigo/v6/ring"

	"verif/engine"
	"verif/lib/cklib"
)

func ckksCfgs(tier string) []cklib.Cfg {
	std, ci := ring.Standard, ring.ConjugateInvariant
	q4 := []int{55, 45, 45}
	q5 := []int{55, 45, 45, 45}
	mk := func(name string, rt ring.Type, logN int, q, p []int, logSlots, pow2 int) cklib.Cfg {
		return cklib.Cfg{Name: name, RingType: rt, LogN: logN, LogQ: q, LogP: p, LogScale: 45, LogSlots: logSlots, Pow2: pow2}
	}
	p1, p2, p3 := []int{61}, []int{61, 61}, []int{61, 61, 61}
	// quick = the former thorough tier and more: LogN 4-7, both rings (odd and even log N), sparse and full
	// packing, 0/1/2/3 auxiliary primes (3 does not divide the 4 primes of Q)
	cfgs := []cklib.Cfg{
		mk("std-logN4-P1", std, 4, q4, p1, -1, 0), mk("std-logN4-P2", std, 4, q4, p2, -1, 0), mk("std-logN4-P0", std, 4, q4, nil, -1, 6),
		mk("std-logN4-P3", std, 4, q5, p3, -1, 0),
		mk("std-logN4-P1-sparse2", std, 4, q4, p1, 2, 0), mk("std-logN4-P1-sparse0", std, 4, q4, p1, 0, 0),
		mk("ci-logN4-P1", ci, 4, q4, p1, -1, 0), mk("ci-logN4-P0", ci, 4, q4, nil, -1, 6), mk("ci-logN4-P2-sparse2", ci, 4, q4, p2, 2, 0),
		mk("std-logN5-P1", std, 5, q4, p1, -1, 0), mk("ci-logN5-P2", ci, 5, q4, p2, -1, 0),
		mk("std-logN5-P2-sparse3", std, 5, q4, p2, 3, 0), mk("ci-logN5-P1-sparse3", ci, 5, q4, p1, 3, 0),
		mk("std-logN6-P1", std, 6, q4, p1, -1, 0), mk("ci-logN6-P1", ci, 6, q4, p1, -1, 0), mk("std-logN5-P0", std, 5, q4, nil, -1, 6),
		mk("std-logN7-P2-sparse4", std, 7, q4, p2, 4, 0), mk("std-logN7-P1", std, 7, q4, p1, -1, 0), mk("ci-logN7-P2-sparse5", ci, 7, q4, p2, 5, 0),
		mk("std-logN6-P2", std, 6, q5, p2, -1, 0), mk("std-logN6-P0", std, 6, q4, nil, -1, 6), mk("ci-logN6-P2", ci, 6, q4, p2, -1, 0),
		mk("std-logN7-P0", std, 7, q4, nil, -1, 6), mk("std-logN7-P2", std, 7, q5, p2, -1, 0), mk("ci-logN7-P1", ci, 7, q4, p1, -1, 0),
	}
	if tier == "thorough" {
		// the real thorough tier: LogN 6-8 in every shape
		cfgs = append(cfgs,
			mk("std-logN6-P3", std, 6, q5, p3, -1, 0), mk("ci-logN6-P0", ci, 6, q4, nil, -1, 6),
			mk("std-logN9-P1-sparse7", std, 9, q4, p1, 7, 0), mk("ci-logN9-P2-sparse6", ci, 9, q4, p2, 6, 0),
			mk("std-logN7-P1-sparse5", std, 7, q4, p1, 5, 0), mk("ci-logN7-P2-sparse6", ci, 7, q4, p2, 6, 0),
			mk("std-logN8-P1", std, 8, q4, p1, -1, 0), mk("std-logN8-P2-sparse6", std, 8, q4, p2, 6, 0), mk("ci-logN8-P1-sparse6", ci, 8, q4, p1, 6, 0),
			mk("std-logN8-P2", std, 8, q4, p2, -1, 0), mk("ci-logN8-P1", ci, 8, q4, p1, -1, 0), mk("std-logN8-P0-sparse5", std, 8, q4, nil, 5, 6), mk("std-logN8-P3-sparse7", std, 8, q5, p3, 7, 0),
		)
	}
	return cfgs
}

func worlds(tier string) []*world {
	var ws []*world
	for _, cf := range ckksCfgs(tier) {
		ws = append(ws, ckksWorld(cf))
	}
	// evaluation keys generated below the maximum (fewer auxiliary primes, lower level) on parameter sets with 2 and 3
	// auxiliary primes: plain and explicitly decomposed (hoisted, lazy) rotations
	for _, rk := range []struct {
		cf     cklib.Cfg
		lq, lp int
	}{
		{cklib.Cfg{Name: "std-logN4-P2", RingType: ring.Standard, LogN: 4, LogQ: []int{55, 45, 45}, LogP: []int{61, 61}, LogScale: 45, LogSlots: -1}, 2, 0},
		{cklib.Cfg{Name: "std-logN4-P3", RingType: ring.Standard, LogN: 4, LogQ: []int{55, 45, 45, 45}, LogP: []int{61, 61, 61}, LogScale: 45, LogSlots: -1}, 2, 1},
		{cklib.Cfg{Name: "ci-logN5-P2", RingType: ring.ConjugateInvariant, LogN: 5, LogQ: []int{55, 45, 45}, LogP: []int{61, 61}, LogScale: 45, LogSlots: -1}, 1, 0},
		{cklib.Cfg{Name: "std-logN5-P3", RingType: ring.Standard, LogN: 5, LogQ: []int{55, 45, 45, 45}, LogP: []int{61, 61, 61}, LogScale: 45, LogSlots: -1}, 3, 0},
	} {
		ws = append(ws, reducedKeys(ckksWorld(rk.cf), rk.lq, rk.lp))
	}
	ws = append(ws, reducedKeys(bgvWorld(4, 2, 97, 0), 1, 0), reducedKeys(bgvWorld(5, 2, 193, 0), 2, 0))
	// BGV: t=97/193/257 plaintext ring = ciphertext ring; t=17 (LogN 4, 5) plaintext ring smaller (gap 2, 4);
	// without P both the default keys and base-2^16 keys
	ws = append(ws, bgvWorld(4, 1, 97, 0), bgvWorld(4, 0, 97, 0), bgvWorld(4, 0, 97, 16), bgvWorld(4, 2, 97, 0), bgvWorld(4, 1, 17, 0),
		bgvWorld(5, 1, 193, 0), bgvWorld(5, 2, 193, 0), bgvWorld(5, 0, 193, 0), bgvWorld(5, 2, 17, 0), bgvWorld(6, 1, 257, 0), bgvWorld(6, 2, 257, 0), bgvWorld(7, 1, 257, 0))
	if tier == "thorough" {
		ws = append(ws, bgvWorld(6, 0, 257, 16), bgvWorld(6, 1, 17, 0), bgvWorld(7, 2, 257, 0), bgvWorld(7, 0, 257, 0), bgvWorld(8, 1, 7681, 0), bgvWorld(8, 2, 7681, 0), bgvWorld(8, 1, 257, 0))
	}
	return ws
}

func rwWorlds(tier string) []*rw {
	ws := []*rw{newRW(4, 1, false), newRW(4, 0, false), newRW(4, 2, false), newRW(5, 1, false), newRW(4, 1, true), newRW(5, 2, true), newRW(4, 0, true)}
	if tier == "thorough" {
		ws = append(ws, newRW(6, 1, false), newRW(6, 2, false), newRW(6, 0, false), newRW(7, 1, false), newRW(6, 1, true), newRW(7, 2, true), newRW(8, 1, false))
	}
	return ws
}

func scenarios(tier string) []engine.Scenario {
	var scs []engine.Scenario
	algN := []int{4, 5, 6, 7, 8}
	if tier == "thorough" {
		algN = append(algN, 9, 10)
	}
	for _, logN := range algN {
		scs = append(scs, algebraScenario(ring.Standard, logN))
		scs = append(scs, algebraScenario(ring.ConjugateInvariant, logN))
	}
	// worlds are built lazily, once per worker process that needs them, from (VERIF_SEED, name) only
	for _, w := range worlds(tier) {
		if w.keyLP != -2 {
			scs = append(scs, rotateScenario(w)) // reduced-level keys: rotations only (see reducedKeys)
			continue
		}
		scs = append(scs, rotateScenario(w), traceScenario(w), lateKeysScenario(w))
		for mi := range sumMethods {
			scs = append(scs, sumsScenario(w, mi))
		}
		if w.scheme == "ckks" {
			scs = append(scs, averageScenario(w))
		}
		if w.scheme == "bgv" && w.np > 0 && w.logN <= 6 {
			scs = append(scs, userFunctionScenario(w))
		}
	}
	// "many terms": counts of Hamming weight >= 9 with 61-bit auxiliary (and ciphertext) primes
	{
		mt := func(logN int) []pair {
			h := 1 << (logN - 1)
			return []pair{{1, h - 1}, {1, h/2 - 1}, {1, h - h/4 - 1}, {2, h/2 - 1}, {1, h}}
		}
		logNs := []int{12} // 2047 = 2^11-1 fits the 2048 slots of a row: 10 lazily accumulated terms
		rws := []*rw{newRWBig(10, 1, true), newRWBig(10, 2, true), newRWBig(10, 1, false), newRW(10, 1, true)}
		rwN := []int{255, 511, 1023, 767, 2047, 4095}
		if tier == "thorough" {
			logNs = []int{11, 12, 13}
			rws = append(rws, newRWBig(11, 1, true), newRWBig(12, 2, true), newRWBig(12, 1, false))
			rwN = append(rwN, 3071, 8191)
		}
		for _, logN := range logNs {
			ws := []*world{
				ckksWorld(cklib.Cfg{Name: fmt.Sprintf("std-logN%d-P1", logN), RingType: ring.Standard, LogN: logN, LogQ: []int{55, 45, 45}, LogP: []int{61}, LogScale: 45, LogSlots: -1}),
				bgvWorld(logN, 1, 65537, 0),
			}
			if logN == 12 {
				ws = append(ws, ckksWorld(cklib.Cfg{Name: "ci-logN11-P2", RingType: ring.ConjugateInvariant, LogN: 11, LogQ: []int{55, 45, 45}, LogP: []int{61, 61}, LogScale: 45, LogSlots: -1}))
			}
			for _, w := range ws {
				for mi, m := range sumMethods {
					if m == "RotateAndAdd" || m == "PartialTracesSum" || m == "Replicate" {
						scs = append(scs, sumsScenarioOn(w, mi, mt(w.logN+map[bool]int{true: 1, false: 0}[w.rt == ring.ConjugateInvariant])))
					}
				}
			}
		}
		for _, w := range rws {
			scs = append(scs, rwManyTermsScenario(w, rwN))
		}
	}
	for _, w := range rwWorlds(tier) {
		scs = append(scs, rwAutoScenario(w), rwSumsScenario(w))
		if w.logN <= 6 {
			scs = append(scs, packingScenario(w))
		}
	}
	return scs
}

func main() {
	engine.Main(engine.Check{
		ID:    "C11",
		Level: "exploration",
		Rule: "algebra: every a,b in [-2n,2n], every subgroup element, extreme k per NthRoot and ring type (evaluations = identities checked). " +
			"ciphertexts: one leaf per (configuration, k) / (configuration, (batch,n), method) / (configuration, trace depth); keys are generated for exactly the advertised list, " +
			"inputs are ramps (distinct value in every slot), BGV compared exactly mod t, CKKS within a bound computed from declared noise supports x16. " +
			"Scheme-less RLWE worlds (NTTFlag false/true) are judged on coefficients after an independent decryption. " +
			"distinct_nontrivial counts distinct (scenario, operation, expected vector) classes.",
		Assumptions: []string{
			"hoisted variants are only exercised on parameter sets with an auxiliary modulus (statement)",
			"InnerSum / InnerFunction are judged on the slots their documentation promises (leftmost sub-vector of each complete group); RotateAndAdd / PartialTracesSum / Replicate on all slots",
			"Trace depth convention: logN=0 is the documented full trace, other depths keep the coefficients of a 2^logN-slot plaintext (ckks.TraceNew: log(n) = logSlots)",
			"CKKS without auxiliary modulus uses evaluation keys with a base-2^6 decomposition (otherwise key-switch noise exceeds any 45-bit scale); BGV and plain RLWE without P use default keys (and base-2^16 keys in one world)",
			"GaloisElementsForPack/ForExpand are called with LogN, as the library's own key generators do (the meaning of a smaller argument is not documented)",
			"Expand: the constant coefficient of every returned ciphertext is judged (all coefficients when logGap = 0)",
			"hoisted entry points are not exercised with base-2 decomposed keys (the library states that combination is unsupported)",
		},
		Scenarios:      scenarios,
		QuickBudget:    150 * time.Second,
		ThoroughBudget: 25 * time.Minute,
		Expect: func(tier string) []string {
			e := []string{"algebra=composition", "algebra=inverse", "algebra=dlog", "algebra=kmod", "algebra=extreme", "algebra=order2",
				"nthroot=32", "nthroot=64", "nthroot=128", "algebra-ring=std", "algebra-ring=ci",
				"scheme=bgv-std", "scheme=ckks-std", "scheme=ckks-ci", "np=0", "np=1", "np=2", "packing=full", "packing=sparse",
				"rotate=plain", "rotate=hoisted", "rotate=hoisted-lazy", "rotate=order-two",
				"k=zero", "k=positive", "k=negative", "k=full-turn", "k=beyond-slots", "k=huge",
				"pair=n-pow2", "pair=n-not-pow2", "pair=n=1", "pair=beyond-row", "pair=not-dividing", "pair=invalid",
				"innersum=bgv-full-1d", "rejected=InnerSum-outside-precondition", "sum=Average", "sum=Trace", "sum=InnerFunction-product",
				"np=3", "rotate=late-keys", "late-keys=none", "late-keys=other-rotation", "late-keys=order-two", "late-keys=same-then-more",
				"packing=Expand", "packing=Pack-zeroing", "packing=Pack-clean", "rlwe-auto=ntt-false", "rlwe-auto=ntt-true", "rlwe-auto=hoisted",
				"rlwe-sum=PartialTracesSum-ntt-false", "rlwe-sum=Replicate-ntt-false", "rlwe-sum=InnerFunction-user-ntt-false", "rlwe-sum=Trace-ntt-false", "rlwe-sum=Trace-ntt-true",
				"trace=skipped-small-plaintext-ring", "bgv-plaintext-ring=smaller",
				"refusal=missing-key", "refusal=degree-2-input", "refusal=sum-without-keys", "domain=ntt", "domain=coefficient", "domain=coefficient-sums", "keys=reduced-level", "many-terms=rlwe-hw9", "many-terms=rlwe-hw10", "many-terms=rlwe-hw11", "many-terms=rlwe-hw12", "many-terms=ckks-hw11", "many-terms=bgv-hw11", "many-terms=ckks-hw10"}
			for _, m := range sumMethods {
				e = append(e, "sum="+m)
			}
			for d := 0; d < 5; d++ {
				e = append(e, fmt.Sprintf("trace=ckks-depth%d", d), fmt.Sprintf("trace=bgv-depth%d", d))
			}
			return e
		},
	})
}
