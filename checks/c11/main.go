// C11 — rotations and slot sums follow the Galois algebra; advertised Galois-key lists suffice.
//
//   algebra/*   GaloisElement / ModInvGaloisElement / SolveDiscreteLogGaloisElement on the whole group
//   rotate/*    every k in [-slots-1, slots+1] and extreme k, plain / New / hoisted / lazy variants, keys for
//               exactly GaloisElement(k); conjugation / row swap with exactly the order-two element
//   sums/*      InnerSum, RotateAndAdd, PartialTracesSum, InnerFunction, Replicate for all (batch, n),
//               keys from exactly the advertised list
//   average/*   ckks.Evaluator.Average for every batch size
//   trace/*     Trace / TraceNew for every depth
//   latekeys/*  key inserted into the key set after the evaluator was built
package main

import (
	"fmt"
	"time"

	"github.com/tuneinsight/lattigo/v6/ring"

	"verif/engine"
	"verif/lib/cklib"
)

func ckksCfgs(tier string) []cklib.Cfg {
	q4 := []int{55, 45, 45}
	cfgs := []cklib.Cfg{
		{Name: "std-logN4-P1", RingType: ring.Standard, LogN: 4, LogQ: q4, LogP: []int{61}, LogScale: 45, LogSlots: -1},
		{Name: "std-logN4-P2", RingType: ring.Standard, LogN: 4, LogQ: q4, LogP: []int{61, 61}, LogScale: 45, LogSlots: -1},
		{Name: "std-logN4-P0", RingType: ring.Standard, LogN: 4, LogQ: q4, LogScale: 45, LogSlots: -1, Pow2: 6},
		{Name: "std-logN4-P1-sparse2", RingType: ring.Standard, LogN: 4, LogQ: q4, LogP: []int{61}, LogScale: 45, LogSlots: 2},
		{Name: "std-logN4-P1-sparse0", RingType: ring.Standard, LogN: 4, LogQ: q4, LogP: []int{61}, LogScale: 45, LogSlots: 0},
		{Name: "ci-logN4-P1", RingType: ring.ConjugateInvariant, LogN: 4, LogQ: q4, LogP: []int{61}, LogScale: 45, LogSlots: -1},
		{Name: "ci-logN4-P0", RingType: ring.ConjugateInvariant, LogN: 4, LogQ: q4, LogScale: 45, LogSlots: -1, Pow2: 6},
		{Name: "ci-logN4-P2-sparse2", RingType: ring.ConjugateInvariant, LogN: 4, LogQ: q4, LogP: []int{61, 61}, LogScale: 45, LogSlots: 2},
	}
	cfgs = append(cfgs,
		cklib.Cfg{Name: "std-logN5-P1", RingType: ring.Standard, LogN: 5, LogQ: q4, LogP: []int{61}, LogScale: 45, LogSlots: -1},
		cklib.Cfg{Name: "ci-logN5-P2", RingType: ring.ConjugateInvariant, LogN: 5, LogQ: q4, LogP: []int{61, 61}, LogScale: 45, LogSlots: -1},
	)
	if tier == "thorough" {
		cfgs = append(cfgs,
			cklib.Cfg{Name: "std-logN5-P2-sparse3", RingType: ring.Standard, LogN: 5, LogQ: q4, LogP: []int{61, 61}, LogScale: 45, LogSlots: 3},
			cklib.Cfg{Name: "std-logN6-P1", RingType: ring.Standard, LogN: 6, LogQ: q4, LogP: []int{61}, LogScale: 45, LogSlots: -1},
			cklib.Cfg{Name: "ci-logN5-P1-sparse3", RingType: ring.ConjugateInvariant, LogN: 5, LogQ: q4, LogP: []int{61}, LogScale: 45, LogSlots: 3},
			cklib.Cfg{Name: "ci-logN6-P1", RingType: ring.ConjugateInvariant, LogN: 6, LogQ: q4, LogP: []int{61}, LogScale: 45, LogSlots: -1},
			cklib.Cfg{Name: "std-logN7-P1", RingType: ring.Standard, LogN: 7, LogQ: q4, LogP: []int{61}, LogScale: 45, LogSlots: -1},
			cklib.Cfg{Name: "std-logN7-P2-sparse4", RingType: ring.Standard, LogN: 7, LogQ: q4, LogP: []int{61, 61}, LogScale: 45, LogSlots: 4},
			cklib.Cfg{Name: "std-logN5-P0", RingType: ring.Standard, LogN: 5, LogQ: q4, LogScale: 45, LogSlots: -1, Pow2: 6},
		)
	}
	return cfgs
}

func worlds(tier string) []*world {
	var ws []*world
	for _, cf := range ckksCfgs(tier) {
		ws = append(ws, ckksWorld(cf))
	}
	ws = append(ws, bgvWorld(4, 1, 97), bgvWorld(4, 0, 97), bgvWorld(4, 2, 97), bgvWorld(5, 1, 193))
	if tier == "thorough" {
		ws = append(ws, bgvWorld(5, 2, 193), bgvWorld(5, 0, 193), bgvWorld(6, 1, 257), bgvWorld(6, 2, 257), bgvWorld(7, 1, 257))
	}
	return ws
}

func scenarios(tier string) []engine.Scenario {
	var scs []engine.Scenario
	for _, logN := range []int{4, 5, 6} {
		scs = append(scs, algebraScenario(ring.Standard, logN))
		scs = append(scs, algebraScenario(ring.ConjugateInvariant, logN))
	}
	if tier == "thorough" {
		for _, logN := range []int{7, 8} {
			scs = append(scs, algebraScenario(ring.Standard, logN))
			scs = append(scs, algebraScenario(ring.ConjugateInvariant, logN))
		}
	}
	// worlds are built lazily, once per worker process that needs them, from (VERIF_SEED, name) only
	for _, w := range worlds(tier) {
		scs = append(scs, rotateScenario(w), sumsScenario(w), traceScenario(w), lateKeysScenario(w))
		if w.scheme == "ckks" {
			scs = append(scs, averageScenario(w))
		}
	}
	return scs
}

func main() {
	engine.Main(engine.Check{
		ID:    "C11",
		Level: "exploration",
		Rule: "algebra: every a,b in [-2n,2n], every subgroup element, extreme k per NthRoot and ring type (evaluations = identities checked). " +
			"ciphertexts: one leaf per (configuration, k) / (configuration, (batch,n), method) / (configuration, trace depth); keys are generated for exactly the advertised list, " +
			"inputs are ramps (distinct value in every slot), BGV compared exactly mod t, CKKS within a bound computed from declared noise supports x16. " +
			"distinct_nontrivial counts distinct (scenario, operation, expected vector) classes.",
		Assumptions: []string{
			"hoisted variants are only exercised on parameter sets with an auxiliary modulus (statement)",
			"InnerSum / InnerFunction are judged on the slots their documentation promises (leftmost sub-vector of each complete group); RotateAndAdd / PartialTracesSum / Replicate on all slots",
			"Trace depth convention: logN=0 is the documented full trace, other depths keep the coefficients of a 2^logN-slot plaintext (ckks.TraceNew: log(n) = logSlots)",
			"CKKS without auxiliary modulus uses evaluation keys with a base-2^6 decomposition (otherwise key-switch noise exceeds any 45-bit scale)",
		},
		Scenarios:      scenarios,
		QuickBudget:    150 * time.Second,
		ThoroughBudget: 25 * time.Minute,
		Expect: func(tier string) []string {
			e := []string{"algebra=composition", "algebra=inverse", "algebra=dlog", "algebra=kmod", "algebra=extreme", "algebra=order2",
				"nthroot=32", "nthroot=64", "nthroot=128", "algebra-ring=std", "algebra-ring=ci",
				"scheme=bgv-std", "scheme=ckks-std", "scheme=ckks-ci", "np=0", "np=1", "np=2", "packing=full", "packing=sparse",
				"rotate=plain", "rotate=hoisted", "rotate=hoisted-lazy", "rotate=order-two",
				"k=zero", "k=positive", "k=negative", "k=full-turn", "k=beyond-slots", "k=huge",
				"pair=n-pow2", "pair=n-not-pow2", "pair=n=1", "pair=beyond-row", "pair=not-dividing", "pair=invalid",
				"innersum=bgv-full-1d", "rejected=InnerSum-outside-precondition", "sum=Average", "sum=Trace"}
			for _, m := range sumMethods {
				e = append(e, "sum="+m)
			}
			for d := 0; d < 5; d++ {
				e = append(e, fmt.Sprintf("trace=ckks-depth%d", d), fmt.Sprintf("trace=bgv-depth%d", d))
			}
			return e
		},
	})
}
