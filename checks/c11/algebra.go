package main

import (
	"fmt"
	"math"

	"github.com/tuneinsight/lattigo/v6/core/rlwe"
	"github.com/tuneinsight/lattigo/v6/ring"

	"verif/engine"
	"verif/uni"
)

// ---------------------------------------------------------------------------------------------
// Galois algebra (no cryptography): GaloisElement / ModInvGaloisElement / SolveDiscreteLogGaloisElement /
// GaloisElementOrderTwoOrthogonalSubgroup against 5^k computed by repeated multiplication.

// refPow5 is the reference: 5^(k mod order) mod nthRoot, order of 5 modulo a power of two m >= 8 is m/4.
func refPow5(k int, nthRoot uint64) uint64 {
	order := int(nthRoot / 4)
	e := ((k % order) + order) % order
	g := uint64(1)
	for i := 0; i < e; i++ {
		g = (g * 5) % nthRoot
	}
	return g
}

func rlweParams(rt ring.Type, logN int) rlwe.Parameters {
	return uni.RLWE(rlwe.ParametersLiteral{LogN: logN, Q: uni.Primes(logN, 30, 2), RingType: rt, NTTFlag: true})
}

func rtName(rt ring.Type) string {
	if rt == ring.ConjugateInvariant {
		return "ci"
	}
	return "std"
}

var extremeK = []int{1 << 31, -(1 << 31), 1 << 62, -(1 << 62), math.MaxInt64, math.MinInt64 + 1, math.MinInt64,
	1<<31 - 1, 1<<32 + 1, -(1<<32 + 1)}

func algebraScenario(rt ring.Type, logN int) engine.Scenario {
	name := fmt.Sprintf("algebra/%s/logN%d", rtName(rt), logN)
	var p rlwe.Parameters
	built := false
	return engine.Scenario{Name: name, Bound: -1, Fn: func(c *engine.Chooser) {
		if !built {
			p = rlweParams(rt, logN)
			built = true
		}
		m := p.RingQ().NthRoot()
		order := int(m / 4) // = number of slots in a row: N/2 (standard), N (conjugate invariant)
		n := order
		c.Cover("nthroot", fmt.Sprint(m))
		c.Cover("algebra-ring", rtName(rt))
		part := c.Choose(5, "part")
		switch part {
		case 0: // definition and composition, all a,b in [-2n,2n]
			for a := -2 * n; a <= 2*n; a++ {
				ga := p.GaloisElement(a)
				if want := refPow5(a, m); ga != want {
					c.Fail("C11/algebra/GaloisElement/value", "%s NthRoot=%d: GaloisElement(%d)=%d want 5^k=%d", rtName(rt), m, a, ga, want)
					return
				}
				for b := -2 * n; b <= 2*n; b++ {
					gb := p.GaloisElement(b)
					if (ga*gb)%m != p.GaloisElement(a+b) {
						c.Fail("C11/algebra/GaloisElement/composition", "NthRoot=%d: G(%d)*G(%d)=%d != G(%d)=%d", m, a, b, (ga*gb)%m, a+b, p.GaloisElement(a+b))
						return
					}
					c.Count(1)
				}
			}
			c.Cover("algebra", "composition")
			c.Outcome(name, "comp", p.GaloisElement(1), p.GaloisElement(-1))
		case 1: // inverse, for every element of <5> (the documented domain: "of the form GaloisGen^k")
			for k := 0; k < order; k++ {
				g := p.GaloisElement(k)
				for _, x := range []uint64{g} {
					inv := p.ModInvGaloisElement(x)
					if (inv*x)%m != 1 {
						c.Fail("C11/algebra/ModInvGaloisElement", "NthRoot=%d: ModInv(%d)=%d, product %d != 1", m, x, inv, (inv*x)%m)
						return
					}
					c.Count(1)
				}
				if inv := p.ModInvGaloisElement(g); inv != p.GaloisElement(-k) {
					c.Fail("C11/algebra/ModInvGaloisElement/neg", "NthRoot=%d: ModInv(G(%d))=%d != G(%d)=%d", m, k, inv, -k, p.GaloisElement(-k))
					return
				}
			}
			c.Cover("algebra", "inverse")
			c.Outcome(name, "inv", p.ModInvGaloisElement(5))
		case 2: // discrete log is the inverse of GaloisElement on the whole subgroup
			seen := map[uint64]bool{}
			for k := 0; k < order; k++ {
				g := p.GaloisElement(k)
				if seen[g] {
					c.Fail("C11/algebra/GaloisElement/not-injective", "NthRoot=%d: G(%d)=%d already produced by a smaller k", m, k, g)
					return
				}
				seen[g] = true
				got := p.SolveDiscreteLogGaloisElement(g)
				if ((got-k)%order+order)%order != 0 {
					c.Fail("C11/algebra/SolveDiscreteLogGaloisElement", "NthRoot=%d: dlog(G(%d)=%d)=%d", m, k, g, got)
					return
				}
				if p.GaloisElement(got) != g {
					c.Fail("C11/algebra/SolveDiscreteLogGaloisElement/roundtrip", "NthRoot=%d: G(dlog(%d))=%d", m, g, p.GaloisElement(got))
					return
				}
				c.Count(1)
			}
			c.Cover("algebra", "dlog")
			c.Outcome(name, "dlog", len(seen))
		case 3: // k and k mod slots coincide; extreme k
			for k := -3 * n; k <= 3*n; k++ {
				km := ((k % n) + n) % n
				if p.GaloisElement(k) != p.GaloisElement(km) {
					c.Fail("C11/algebra/GaloisElement/k-mod-slots", "NthRoot=%d: G(%d)=%d != G(%d)=%d", m, k, p.GaloisElement(k), km, p.GaloisElement(km))
					return
				}
				c.Count(1)
			}
			for _, k := range extremeK {
				g := p.GaloisElement(k)
				if want := refPow5(k, m); g != want {
					c.Fail("C11/algebra/GaloisElement/extreme-k", "NthRoot=%d: G(%d)=%d want %d", m, k, g, want)
					return
				}
				if k != math.MinInt64 {
					if (g*p.GaloisElement(-k))%m != 1 {
						c.Fail("C11/algebra/GaloisElement/extreme-k-inverse", "NthRoot=%d: G(%d)*G(%d) != 1", m, k, -k)
						return
					}
				}
				for _, b := range []int{-1, 1, n, -n - 1} {
					s := k + b
					if (b > 0 && s < k) || (b < 0 && s > k) {
						continue // a+b overflows int: not an integer statement any more
					}
					if (g*p.GaloisElement(b))%m != p.GaloisElement(s) {
						c.Fail("C11/algebra/GaloisElement/extreme-k-composition", "NthRoot=%d: G(%d)*G(%d) != G(%d)", m, k, b, s)
						return
					}
				}
				c.Count(1)
			}
			c.Cover("algebra", "kmod")
			c.Cover("algebra", "extreme")
			c.Outcome(name, "ext", p.GaloisElement(math.MaxInt64))
		case 4: // the order-two element orthogonal to <5>, GaloisElements (plural) consistency
			if rt == ring.Standard {
				g := p.GaloisElementOrderTwoOrthogonalSubgroup()
				if (g*g)%m != 1 || g == 1 {
					c.Fail("C11/algebra/OrderTwo/order", "NthRoot=%d: element %d is not of order two", m, g)
					return
				}
				for k := 0; k < order; k++ {
					if p.GaloisElement(k) == g {
						c.Fail("C11/algebra/OrderTwo/in-subgroup", "NthRoot=%d: %d = 5^%d lies in <5>", m, g, k)
						return
					}
				}
				if (g+1)%m != 0 {
					c.Fail("C11/algebra/OrderTwo/value", "NthRoot=%d: documented GaloisGen^-1... element is %d, want -1", m, g)
					return
				}
			}
			ks := []int{0, 1, -1, n, n + 1, math.MaxInt64}
			gs := p.GaloisElements(ks)
			for i, k := range ks {
				if gs[i] != p.GaloisElement(k) {
					c.Fail("C11/algebra/GaloisElements", "NthRoot=%d: GaloisElements[%d] != GaloisElement(%d)", m, i, k)
					return
				}
			}
			c.Count(order + len(ks))
			c.Cover("algebra", "order2")
			c.Outcome(name, "o2", gs)
		}
	}}
}
