package main

import (
	"github.com/tuneinsight/lattigo/v6/core/rlwe"

	"verif/engine"
	"verif/uni"
)

// Ring-packing circuits with keys generated from exactly the advertised lists:
//
//	Expand(ct, logGap): "expands a RLWE Ciphertext encrypting P(X) = ci * X^i and returns a map of ciphertexts,
//	  each encrypting P(X) = ci * X^0, indexed by i, for 0 <= i < 2^logN and i divisible by 2^logGap";
//	  keys: GaloisElementsForExpand(params, LogN) (what GenExtractEvaluationKeys generates).
//	Pack(cts, inputLogGap, zeroGarbageSlots): input j holds its values at the coefficients that are multiples of
//	  2^inputLogGap; the output holds value m of input j at coefficient m*2^inputLogGap + j (worked example in the
//	  doc comment); keys: GaloisElementsForPack(params, LogN) (what GenRepackEvaluationKeys generates).
func packingScenario(w *rw) engine.Scenario {
	name := "packing/" + w.name
	N := 1 << w.logN
	return engine.Scenario{Name: name, Bound: -1, Fn: func(c *engine.Chooser) {
		w.ensure(c)
		op := c.Choose(3, "op") // 0 Expand, 1 Pack(zeroGarbage), 2 Pack(no zeroing, clean inputs)
		lg := c.Choose(w.logN+1, "logGap")
		uni.Seed(c, name, op, lg)
		rpk := &rlwe.RingPackingEvaluationKey{Parameters: map[int]rlwe.ParameterProvider{w.logN: &w.p}}
		if op == 0 {
			list := rlwe.GaloisElementsForExpand(w.p, w.logN)
			rpk.ExtractKeys = map[int]rlwe.EvaluationKeySet{w.logN: rlwe.NewMemEvaluationKeySet(nil, w.keys(list)...)}
			ev := rlwe.NewRingPackingEvaluator(rpk)
			co := rwRamp(N)
			ct := w.encrypt(co)
			var cts map[int]*rlwe.Ciphertext
			if err, pan := uni.Try(func() (e error) { cts, e = ev.Expand(ct, lg); return }); err != nil || pan != nil {
				c.Fail("C11/rlwe/Expand/failed-with-advertised-keys", "%s: Expand(logGap=%d) with keys for exactly GaloisElementsForExpand: err=%v panic=%v", w.name, lg, err, pan)
				return
			}
			gap := 1 << lg
			for i := 0; i < N; i += gap {
				out, ok := cts[i]
				if !ok || out == nil {
					c.Fail("C11/rlwe/Expand/missing-output", "%s: Expand(logGap=%d): no ciphertext for index %d (have %d entries)", w.name, lg, i, len(cts))
					return
				}
				// documented content: ci * X^0 — the constant coefficient is judged (the others are not promised to vanish
				// unless logGap = 0; they are when it is)
				want := make([]int64, N)
				want[0] = co[i]
				mask := make([]bool, N)
				mask[0] = true
				if lg == 0 {
					mask = nil
				}
				if !w.check(c, "C11/rlwe/Expand/value", out, want, mask, N, w.logN+1) {
					c.Note("index %d", i)
					return
				}
				c.Count(1)
			}
			c.Cover("packing", "Expand")
			c.Outcome(name, "expand", lg)
			return
		}
		if lg == 0 {
			return // inputLogGap = 0: nothing to pack
		}
		list := rlwe.GaloisElementsForPack(w.p, w.logN)
		rpk.RepackKeys = map[int]rlwe.EvaluationKeySet{w.logN: rlwe.NewMemEvaluationKeySet(nil, w.keys(list)...)}
		ev := rlwe.NewRingPackingEvaluator(rpk)
		G := 1 << lg
		cts := map[int]*rlwe.Ciphertext{}
		want := make([]int64, N)
		for j := 0; j < G; j++ {
			co := make([]int64, N)
			for i := range co {
				if i%G == 0 {
					co[i] = int64(1 + j + 3*i) // value m = i/G of input j
					want[i+j] = co[i]
				} else if op == 1 {
					co[i] = int64(1000 + 7*i + j) // garbage the circuit is asked to zero
				}
			}
			cts[j] = w.encrypt(co)
		}
		var out *rlwe.Ciphertext
		if err, pan := uni.Try(func() (e error) { out, e = ev.Pack(cts, lg, op == 1); return }); err != nil || pan != nil {
			c.Fail("C11/rlwe/Pack/failed-with-advertised-keys", "%s: Pack(%d ciphertexts, inputLogGap=%d, zero=%v) with keys for exactly GaloisElementsForPack: err=%v panic=%v", w.name, G, lg, op == 1, err, pan)
			return
		}
		if !w.check(c, "C11/rlwe/Pack/value", out, want, nil, N, w.logN+1) {
			return
		}
		c.Cover("packing", map[int]string{1: "Pack-zeroing", 2: "Pack-clean"}[op])
		c.Outcome(name, "pack", op, lg)
	}}
}
