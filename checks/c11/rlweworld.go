package main

import (
	"fmt"
	"math"
	"math/big"

	"github.com/tuneinsight/lattigo/v6/core/rlwe"
	"github.com/tuneinsight/lattigo/v6/ring"
	"github.com/tuneinsight/lattigo/v6/utils/sampling"

	"verif/engine"
	"verif/lib/cklib"
	"verif/ref"
	"verif/uni"
)

// rw is a scheme-less RLWE world: plaintexts are integer polynomials scaled by 2^80, compared in the
// coefficient domain after an independent decryption (uni.Phase). It exists for the code paths the
// schemes never reach (NTTFlag = false) and for the ring-packing circuits, which are documented on
// coefficients.
type rw struct {
	name  string
	logN  int
	np    int
	ntt   bool
	qbits int // bit size of the primes of Q (45, or 61: the largest size, where lazily accumulated sums are closest to 2^64)
	built bool
	p     rlwe.Parameters
	sk    *rlwe.SecretKey
	nb    cklib.Bounds
}

const rwLogScale = 80

func newRW(logN, np int, ntt bool) *rw {
	return &rw{name: fmt.Sprintf("rlwe/logN%d-P%d-ntt%v", logN, np, ntt), logN: logN, np: np, ntt: ntt, qbits: 45}
}

// newRWBig: all primes of Q and P have 61 bits.
func newRWBig(logN, np int, ntt bool) *rw {
	return &rw{name: fmt.Sprintf("rlwe/logN%d-P%d-ntt%v-q61", logN, np, ntt), logN: logN, np: np, ntt: ntt, qbits: 61}
}

func (w *rw) ensure(c *engine.Chooser) {
	if w.built {
		return
	}
	sampling.VerifSeed(engine.Hash(c.Seed, "c11.rw", w.name))
	lit := rlwe.ParametersLiteral{LogN: w.logN, Q: uni.Primes(w.logN, 45, 3), NTTFlag: w.ntt}
	if w.np > 0 {
		lit.P = uni.Primes(w.logN, 61, w.np)
	}
	if w.qbits == 61 {
		all := uni.Primes(w.logN, 61, 3+w.np)
		lit.Q, lit.P = all[:3], all[3:]
	}
	w.p = uni.RLWE(lit)
	w.sk = rlwe.NewKeyGenerator(w.p).GenSecretKeyNew()
	h := 0
	for _, s := range uni.SecretCoeffs(w.p, w.sk) {
		if s.Sign() != 0 {
			h++
		}
	}
	N := float64(w.p.N())
	// the same worst-case bounds as for CKKS (cklib.Bounds), filled by hand for plain RLWE parameters
	w.nb = cklib.Bounds{N: w.p.N(), LogN: w.logN, Emb: N, SRoot: float64(h), B: math.Ceil(w.p.NoiseBound()), Q: w.p.Q(), P: w.p.P()}
	w.built = true
}

func (w *rw) keys(galEls []uint64) []*rlwe.GaloisKey {
	return rlwe.NewKeyGenerator(w.p).GenGaloisKeysNew(galEls, w.sk)
}

// encrypt encrypts Σ co[i]·2^80·X^i at the top level.
func (w *rw) encrypt(co []int64) *rlwe.Ciphertext {
	pt := rlwe.NewPlaintext(w.p, w.p.MaxLevel())
	rQ := w.p.RingQ()
	for i, v := range co {
		x := new(big.Int).Lsh(big.NewInt(v), rwLogScale)
		for j, q := range rQ.ModuliChain() {
			r := new(big.Int).Mod(x, new(big.Int).SetUint64(q))
			pt.Value.Coeffs[j][i] = r.Uint64()
		}
	}
	if w.ntt {
		rQ.NTT(pt.Value, pt.Value)
	}
	pt.IsNTT = w.ntt
	ct, err := rlwe.NewEncryptor(w.p, w.sk).EncryptNew(pt)
	if err != nil {
		panic(err)
	}
	return ct
}

// check compares the phase of ct with Σ want[i]·2^80·X^i. terms/ks as in budget: the result is built from
// `terms` copies of fresh noise and `ks` key switches each possibly duplicated `terms` times.
func (w *rw) check(c *engine.Chooser, sig string, ct *rlwe.Ciphertext, want []int64, mask []bool, terms, ks int) bool {
	if ct == nil || ct.Degree() != 1 {
		c.Fail(sig+"/shape", "%s: nil or non degree-1 output", w.name)
		return false
	}
	ph := uni.Phase(w.p, &ct.Element, w.sk)
	// coefficient error <= root-domain bound of the error polynomial
	bound := safety * (float64(terms)*w.nb.Fresh() + float64(ks)*float64(terms)*w.nb.KeySwitch(ct.Level()))
	for i := range want {
		if mask != nil && !mask[i] {
			continue
		}
		d := new(big.Int).Sub(ph[i], new(big.Int).Lsh(big.NewInt(want[i]), rwLogScale))
		f, _ := new(big.Float).SetInt(d).Float64()
		if !(math.Abs(f) <= bound) {
			got, _ := new(big.Float).Quo(new(big.Float).SetInt(ph[i]), new(big.Float).SetMantExp(big.NewFloat(1), rwLogScale)).Float64()
			c.Fail(sig, "%s: coefficient %d = %.6g·2^80, want %d·2^80 (|diff|=2^%.1f > bound 2^%.1f)", w.name, i, got, want[i], math.Log2(math.Abs(f)+1), math.Log2(bound))
			return false
		}
	}
	return true
}

// autoCoeffs is the reference automorphism X -> X^g on integer coefficient vectors (negacyclic).
func autoCoeffs(co []int64, g uint64) []int64 {
	N := len(co)
	out := make([]int64, N)
	for i, v := range co {
		j := int((uint64(i) * g) % uint64(2*N))
		if j >= N {
			out[j-N] = -v
		} else {
			out[j] = v
		}
	}
	return out
}

func pow5(k int, nthRoot uint64) uint64 { return refPow5(k, nthRoot) }

var _ = ref.Center
var _ = ring.Standard
