package main

import (
	"fmt"
	"math"

	"github.com/tuneinsight/lattigo/v6/core/rlwe"

	"verif/engine"
	"verif/uni"
)

// ---------------------------------------------------------------------------------------------
// model operations on (re, im) vectors laid out row-major in rows of length rowLen

// rotRows: the documented rotation "by k positions to the left" applied to every row:
// out[r][i] = in[r][(i+k) mod rowLen].
func rotRows(v []int64, rowLen, k int) []int64 {
	out := make([]int64, len(v))
	for r := 0; r < len(v)/rowLen; r++ {
		for i := 0; i < rowLen; i++ {
			out[r*rowLen+i] = v[r*rowLen+(((i+k)%rowLen)+rowLen)%rowLen]
		}
	}
	return out
}

// swapRows: the 2 x rowLen matrix with its rows exchanged.
func swapRows(v []int64, rowLen int) []int64 {
	out := make([]int64, len(v))
	copy(out[:rowLen], v[rowLen:])
	copy(out[rowLen:], v[:rowLen])
	return out
}

func neg(v []int64) []int64 {
	out := make([]int64, len(v))
	for i := range v {
		out[i] = -v[i]
	}
	return out
}

func addVec(a, b []int64) []int64 {
	out := make([]int64, len(a))
	for i := range a {
		out[i] = a[i] + b[i]
	}
	return out
}

// rotationKs lists every k in [-rowLen-1, rowLen+1] plus the extreme values.
func rotationKs(rowLen int) []int {
	var ks []int
	for k := -rowLen - 1; k <= rowLen+1; k++ {
		ks = append(ks, k)
	}
	ks = append(ks, 1<<31, -(1 << 31), 1<<62+3, -(1<<62 + 3), math.MaxInt64, math.MinInt64+1, 2*rowLen+3, -3*rowLen+1)
	return ks
}

func kClass(k, rowLen int) string {
	switch {
	case k == 0:
		return "zero"
	case k > rowLen || k < -rowLen:
		if k > 1<<30 || k < -(1<<30) {
			return "huge"
		}
		return "beyond-slots"
	case k == rowLen || k == -rowLen:
		return "full-turn"
	case k < 0:
		return "negative"
	}
	return "positive"
}

// rotateScenario: one leaf per k. Keys are generated for exactly params.GaloisElement(k).
func rotateScenario(w *world) engine.Scenario {
	name := "rotate/" + w.name
	ks := rotationKs(w.rowLen)
	return engine.Scenario{Name: name, Bound: -1, Fn: func(c *engine.Chooser) {
		w.ensure(c)
		ki := c.Choose(len(ks)+1, "k")
		coeff := c.Choose(2, "domain") == 1
		uni.Seed(c, name, ki, coeff)
		re, im := w.ramp()
		c.Cover("domain", map[bool]string{false: "ntt", true: "coefficient"}[coeff])
		c.Cover("scheme", w.scheme+"-"+rtName(w.rt))
		c.Cover("np", fmt.Sprint(w.np))
		if w.keyLP != -2 {
			c.Cover("keys", "reduced-level")
		}
		if w.gap > 1 {
			c.Cover("bgv-plaintext-ring", "smaller")
		}
		if w.rowLen*w.rows < w.maxSlots() {
			c.Cover("packing", "sparse")
		} else {
			c.Cover("packing", "full")
		}
		one := budget{terms: 1, ks: 1, div: 1}
		if ki == len(ks) { // the order-two element: conjugation / row swap
			if !w.hasConj {
				c.Cover("rotate", "no-conjugate-in-ci")
				return
			}
			// the key is generated for the element the SCHEME advertises for this operation
			g := w.elOrderTwo()
			if core := w.rp.GaloisElementOrderTwoOrthogonalSubgroup(); g != core {
				c.Fail("C11/"+w.scheme+"/advertised-order-two-element-differs-from-core", "%s: scheme wrapper gives %d, rlwe.Parameters %d", w.name, g, core)
				return
			}
			o := w.newOps([]uint64{g})
			ct := w.encryptIn(re, im, coeff)
			out := ct.CopyNew()
			if err, pan := uni.Try(func() error { return o.conj(ct, out) }); err != nil || pan != nil {
				c.Fail("C11/"+w.scheme+"/conjugate/failed-with-advertised-key", "%s: err=%v panic=%v", w.name, err, pan)
				return
			}
			var wr, wi []int64
			if w.scheme == "bgv" {
				wr, wi = swapRows(re, w.rowLen), im
			} else {
				wr, wi = re, neg(im)
			}
			if !w.compare(c, "C11/"+w.scheme+"/conjugate/value", out, wr, wi, nil, one) {
				return
			}
			c.Cover("rotate", "order-two")
			c.Outcome(name, "conj")
			return
		}
		k := ks[ki]
		// the key is generated for the element the SCHEME advertises for a rotation by k (GaloisElementForRotation /
		// GaloisElementForColRotation); it must be the one the evaluator asks for, i.e. the core-level element of k
		g := w.elRotation(k)
		if core := w.rp.GaloisElement(k); g != core {
			c.Fail("C11/"+w.scheme+"/advertised-rotation-element-differs-from-core", "%s: k=%d: scheme wrapper gives %d, rlwe.Parameters.GaloisElement %d", w.name, k, g, core)
			return
		}
		o := w.newOps([]uint64{g})
		ct := w.encryptIn(re, im, coeff)
		wr, wi := rotRows(re, w.rowLen, k), rotRows(im, w.rowLen, k)
		cls := kClass(k, w.rowLen)
		c.Note("k=%d galEl=%d class=%s", k, g, cls)

		// plain variant, into a fresh ciphertext of the same shape
		out := ct.CopyNew()
		if err, pan := uni.Try(func() error { return o.rotate(ct, k, out) }); err != nil || pan != nil {
			c.Fail("C11/"+w.scheme+"/rotate/failed-with-advertised-key", "%s: k=%d galEl=%d err=%v panic=%v", w.name, k, g, err, pan)
			return
		}
		if !w.compare(c, "C11/"+w.scheme+"/rotate/value", out, wr, wi, nil, one) {
			return
		}
		// New variant
		var outN *rlwe.Ciphertext
		if err, pan := uni.Try(func() (e error) { outN, e = o.rotateNew(ct, k); return }); err != nil || pan != nil {
			c.Fail("C11/"+w.scheme+"/rotateNew/failed-with-advertised-key", "%s: k=%d err=%v panic=%v", w.name, k, err, pan)
			return
		}
		if !w.compare(c, "C11/"+w.scheme+"/rotateNew/value", outN, wr, wi, nil, one) {
			return
		}
		// the input must still decrypt to the ramp (rotation is not in place here)
		if !w.compare(c, "C11/"+w.scheme+"/rotate/input-changed", ct, re, im, nil, budget{terms: 1, ks: 0, div: 1}) {
			return
		}
		c.Count(2)
		// rlwe-level Automorphism with the same element
		outA := ct.CopyNew()
		if err, pan := uni.Try(func() error { return o.rl.Automorphism(ct, g, outA) }); err != nil || pan != nil {
			c.Fail("C11/"+w.scheme+"/automorphism/failed-with-advertised-key", "%s: k=%d err=%v panic=%v", w.name, k, err, pan)
			return
		}
		if !w.compare(c, "C11/"+w.scheme+"/automorphism/value", outA, wr, wi, nil, one) {
			return
		}
		// hoisted variants: only on parameter sets with an auxiliary modulus (statement)
		if w.np > 0 {
			if o.hoisted != nil && w.keyLevelP() == w.np-1 {
				var m map[int]*rlwe.Ciphertext
				if err, pan := uni.Try(func() (e error) { m, e = o.hoisted(ct, []int{k}); return }); err != nil || pan != nil {
					c.Fail("C11/"+w.scheme+"/rotateHoisted/failed-with-advertised-key", "%s: k=%d err=%v panic=%v", w.name, k, err, pan)
					return
				}
				if !w.compare(c, "C11/"+w.scheme+"/rotateHoisted/value", m[k], wr, wi, nil, one) {
					return
				}
				c.Cover("rotate", "hoisted")
				c.Count(1)
			}
			// AutomorphismHoisted with an explicit decomposition
			outH := ct.CopyNew()
			if err, pan := uni.Try(func() error {
				o.rl.DecomposeNTT(ct.Level(), w.keyLevelP(), w.keyLevelP()+1, ct.Value[1], ct.IsNTT, o.rl.BuffDecompQP)
				return o.rl.AutomorphismHoisted(ct.Level(), ct, o.rl.BuffDecompQP, g, outH)
			}); err != nil || pan != nil {
				c.Fail("C11/"+w.scheme+"/automorphismHoisted/failed-with-advertised-key", "%s: k=%d err=%v panic=%v", w.name, k, err, pan)
				return
			}
			if !w.compare(c, "C11/"+w.scheme+"/automorphismHoisted/value", outH, wr, wi, nil, one) {
				return
			}
			// lazy variant (result mod QP, scaled by P) followed by ModDown; the wrappers skip k == 0
			var m map[int]*rlwe.Ciphertext
			if err, pan := uni.Try(func() (e error) { m, e = o.hoistedLazy(ct, []int{k}); return }); err != nil || pan != nil {
				c.Fail("C11/"+w.scheme+"/rotateHoistedLazy/failed-with-advertised-key", "%s: k=%d err=%v panic=%v", w.name, k, err, pan)
				return
			}
			if k != 0 {
				sig := "C11/" + w.scheme + "/rotateHoistedLazy/value"
				if coeff {
					// RotateHoistedLazyNew allocates its results flagged NTT whatever the domain of the input (FINDINGS.md #7)
					sig = "C11/RotateHoistedLazyNew/coefficient-domain-input/value"
				}
				if !w.compare(c, sig, m[k], wr, wi, nil, one) {
					return
				}
			}
			c.Cover("rotate", "hoisted-lazy")
			c.Count(2)
		}
		// the refusal side: with a key for another element only, every entry point must return an error (no panic, no
		// result); a degree-2 input is refused too ("will return an error if either ctIn or opOut degree is not equal to 1")
		if g2 := w.rp.GaloisElement(k + 1); g != 1 && g2 != g {
			o2 := w.newOps([]uint64{g2})
			refuse := func(what string, f func() error) bool {
				err, pan := uni.Try(f)
				if pan != nil || err == nil {
					c.Fail("C11/"+w.scheme+"/"+what+"/missing-key-not-refused", "%s: k=%d, only the key for galEl %d exists: err=%v panic=%v", w.name, k, g2, err, pan)
					return false
				}
				return true
			}
			tmp := ct.CopyNew()
			if !refuse("rotate", func() error { return o2.rotate(ct, k, tmp) }) ||
				!refuse("automorphism", func() error { return o2.rl.Automorphism(ct, g, tmp) }) {
				return
			}
			if w.np > 0 {
				lp := w.keyLevelP()
				if !refuse("automorphismHoisted", func() error {
					o2.rl.DecomposeNTT(ct.Level(), lp, lp+1, ct.Value[1], ct.IsNTT, o2.rl.BuffDecompQP)
					return o2.rl.AutomorphismHoisted(ct.Level(), ct, o2.rl.BuffDecompQP, g, tmp)
				}) || !refuse("rotateHoistedLazy", func() error { _, e := o2.hoistedLazy(ct, []int{k}); return e }) {
					return
				}
				if o2.hoisted != nil && lp == w.np-1 {
					if !refuse("rotateHoisted", func() error { _, e := o2.hoisted(ct, []int{k}); return e }) {
						return
					}
				}
			}
			c.Cover("refusal", "missing-key")
		}
		if g != 1 {
			d2 := ct.CopyNew()
			d2.Resize(2, d2.Level())
			tmp := ct.CopyNew()
			if err, pan := uni.Try(func() error { return o.rotate(d2, k, tmp) }); pan != nil || err == nil {
				c.Fail("C11/"+w.scheme+"/rotate/degree-2-input-not-refused", "%s: k=%d err=%v panic=%v", w.name, k, err, pan)
				return
			}
			c.Cover("refusal", "degree-2-input")
		}
		c.Cover("rotate", "plain")
		c.Cover("k", cls)
		c.Outcome(name, wr, wi)
	}}
}

func (w *world) maxSlots() int {
	if w.scheme == "bgv" {
		return w.bp.MaxSlots()
	}
	return w.ck.Params.MaxSlots()
}

// lateKeysScenario: Galois keys inserted into the key set after the evaluator was constructed (the key set
// is an interface the evaluator holds; MemEvaluationKeySet is a plain map the caller owns). Variants: the
// key set held no Galois key / a different Galois key / the conjugation key at construction; the late key is
// then used through the plain, hoisted and lazy entry points and by an inner sum, and compared with the
// same operations on an evaluator constructed after all keys existed.
func lateKeysScenario(w *world) engine.Scenario {
	name := "latekeys/" + w.name
	atCreation := []string{"none", "other-rotation", "order-two", "same-then-more"}
	ks := []int{1, -1, 3, w.rowLen - 1}
	return engine.Scenario{Name: name, Bound: -1, Fn: func(c *engine.Chooser) {
		w.ensure(c)
		vi := c.Choose(len(atCreation), "at-creation")
		ki := c.Choose(len(ks), "k")
		uni.Seed(c, name, vi, ki)
		re, im := w.ramp()
		k := ks[ki]
		g := w.rp.GaloisElement(k)
		var first []uint64
		switch atCreation[vi] {
		case "other-rotation":
			first = []uint64{w.rp.GaloisElement(k + 1)}
		case "order-two":
			if !w.hasConj {
				first = []uint64{w.rp.GaloisElement(2)}
			} else {
				first = []uint64{w.rp.GaloisElementOrderTwoOrthogonalSubgroup()}
			}
		case "same-then-more":
			first = []uint64{g}
		}
		evk := rlwe.NewMemEvaluationKeySet(nil, w.galoisKeys(first)...)
		o := w.opsFor(evk)
		ct := w.encrypt(re, im)
		if len(first) > 0 && first[0] != 1 {
			// use the evaluator once before the key set grows (lazily built tables are then already populated)
			tmp := ct.CopyNew()
			if err, pan := uni.Try(func() error { return o.rl.Automorphism(ct, first[0], tmp) }); err != nil || pan != nil {
				c.Fail("C11/"+w.scheme+"/latekeys/first-use-failed", "%s: err=%v panic=%v", w.name, err, pan)
				return
			}
		}
		late := []uint64{g, w.rp.GaloisElement(2 * k)}
		for _, gk := range w.galoisKeys(late) {
			evk.GaloisKeys[gk.GaloisElement] = gk
		}
		one := budget{terms: 1, ks: 1, div: 1}
		sig := "C11/" + w.scheme + "/rotate/key-added-after-evaluator-construction"
		wr, wi := rotRows(re, w.rowLen, k), rotRows(im, w.rowLen, k)
		out := ct.CopyNew()
		if err, pan := uni.Try(func() error { return o.rotate(ct, k, out) }); err != nil || pan != nil {
			c.Fail(sig+"/failed", "%s (%s at creation): key for galEl %d is in the key set, Rotate(%d): err=%v panic=%v", w.name, atCreation[vi], g, k, err, pan)
			return
		}
		if !w.compare(c, sig+"/value", out, wr, wi, nil, one) {
			return
		}
		// second use of the same late key, and the other late key
		out2 := ct.CopyNew()
		if err, pan := uni.Try(func() error { return o.rotate(out, k, out2) }); err != nil || pan != nil {
			c.Fail(sig+"/failed", "%s: second Rotate(%d): err=%v panic=%v", w.name, k, err, pan)
			return
		}
		if !w.compare(c, sig+"/value", out2, rotRows(re, w.rowLen, 2*k), rotRows(im, w.rowLen, 2*k), nil, budget{terms: 1, ks: 2, div: 1}) {
			return
		}
		out3 := ct.CopyNew()
		if err, pan := uni.Try(func() error { return o.rotate(ct, 2*k, out3) }); err != nil || pan != nil {
			c.Fail(sig+"/failed", "%s: Rotate(%d) with the second late key: err=%v panic=%v", w.name, 2*k, err, pan)
			return
		}
		if !w.compare(c, sig+"/value", out3, rotRows(re, w.rowLen, 2*k), rotRows(im, w.rowLen, 2*k), nil, one) {
			return
		}
		if w.np > 0 {
			outH := ct.CopyNew()
			if err, pan := uni.Try(func() error {
				o.rl.DecomposeNTT(ct.Level(), w.keyLevelP(), w.keyLevelP()+1, ct.Value[1], ct.IsNTT, o.rl.BuffDecompQP)
				return o.rl.AutomorphismHoisted(ct.Level(), ct, o.rl.BuffDecompQP, g, outH)
			}); err != nil || pan != nil {
				c.Fail(sig+"/hoisted-failed", "%s: AutomorphismHoisted with a late key: err=%v panic=%v", w.name, err, pan)
				return
			}
			if !w.compare(c, sig+"/hoisted-value", outH, wr, wi, nil, one) {
				return
			}
			var m map[int]*rlwe.Ciphertext
			if err, pan := uni.Try(func() (e error) { m, e = o.hoistedLazy(ct, []int{k}); return }); err != nil || pan != nil {
				c.Fail(sig+"/hoisted-lazy-failed", "%s: err=%v panic=%v", w.name, err, pan)
				return
			}
			if k != 0 { // the lazy wrappers skip k = 0
				if !w.compare(c, sig+"/hoisted-lazy-value", m[k], wr, wi, nil, one) {
					return
				}
			}
		}
		// a shallow copy and a WithKey view made after the insertion must see the key too
		sc := o.rl.ShallowCopy()
		outS := ct.CopyNew()
		if err, pan := uni.Try(func() error { return sc.Automorphism(ct, g, outS) }); err != nil || pan != nil {
			c.Fail(sig+"/shallow-copy-failed", "%s: err=%v panic=%v", w.name, err, pan)
			return
		}
		if !w.compare(c, sig+"/shallow-copy-value", outS, wr, wi, nil, one) {
			return
		}
		c.Cover("rotate", "late-keys")
		c.Cover("late-keys", atCreation[vi])
		c.Outcome(name, vi, wr)
	}}
}
