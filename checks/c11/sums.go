package main

import (
	"fmt"
	"math/bits"
	"strings"

	"github.com/tuneinsight/lattigo/v6/core/rlwe"
	"github.com/tuneinsight/lattigo/v6/schemes/bgv"

	"verif/engine"
	"verif/lib/cklib"
	"verif/uni"
)

// partialTraces is the documented semantics of rlwe.Evaluator.PartialTracesSum:
// opOut = Σ_{i=0}^{n-1} phi(i*offset, ctIn), phi(k,·) being the rotation by k (of every row).
func partialTraces(v []int64, rowLen, offset, n int) []int64 {
	out := make([]int64, len(v))
	for i := 0; i < n; i++ {
		out = addVec(out, rotRows(v, rowLen, i*offset))
	}
	return out
}

// leftmostMask marks, in every row, the first `batch` entries of every complete group of n*batch
// entries: the slots InnerSum / InnerFunction promise (all others are documented as garbage).
func leftmostMask(rows, rowLen, batch, n int) []bool {
	m := make([]bool, rows*rowLen)
	l := batch * n
	for r := 0; r < rows; r++ {
		for g := 0; (g+1)*l <= rowLen; g++ {
			for j := 0; j < batch; j++ {
				m[r*rowLen+g*l+j] = true
			}
		}
	}
	return m
}

type pair struct{ batch, n int }

// sumPairs: every (batch, n) with n*batch <= 2*rowLen (so that the region just outside the
// n*batch <= slots precondition is covered too), plus invalid pairs.
func sumPairs(rowLen int) (ps []pair) {
	for b := 1; b <= rowLen; b++ {
		for n := 1; n*b <= 2*rowLen; n++ {
			ps = append(ps, pair{b, n})
		}
	}
	ps = append(ps, pair{0, 1}, pair{1, 0}, pair{-1, 2}, pair{2, -1}, pair{0, 0})
	return
}

var sumMethods = []string{"InnerSum", "RotateAndAdd", "PartialTracesSum", "InnerFunction", "Replicate"}

// sigNoP: InnerSum / RotateAndAdd / Replicate / PartialTracesSum / Average all go through
// rlwe.Evaluator.PartialTracesSum, which dereferences the (absent) P ring when n >= 2.
const sigNoP = "C11/rlwe/PartialTracesSum/no-auxiliary-modulus/panic"

func isNilDeref(pan interface{}) bool {
	return strings.Contains(fmt.Sprint(pan), "nil pointer dereference")
}

func isPow2(x int) bool { return x > 0 && x&(x-1) == 0 }

// sumsScenario: one scenario per (world, method) so that the large rings spread over the workers.
func sumsScenario(w *world, mi int) engine.Scenario { return sumsScenarioOn(w, mi, nil) }

// sumsScenarioOn: with an explicit pair list (the "many terms" family: counts of large Hamming weight on big rings).
func sumsScenarioOn(w *world, mi int, only []pair) engine.Scenario {
	name := "sums/" + w.name + "/" + sumMethods[mi]
	ps := sumPairs(w.rowLen)
	if only != nil {
		name = "manyterms/" + w.name + "/" + sumMethods[mi]
		ps = only
	}
	return engine.Scenario{Name: name, Bound: -1, Fn: func(c *engine.Chooser) {
		w.ensure(c)
		pi := c.Choose(len(ps), "pair")
		coeff := only == nil && c.Choose(2, "domain") == 1
		uni.Seed(c, name, pi, mi, coeff)
		if coeff {
			c.Cover("domain", "coefficient-sums")
		}
		p, method := ps[pi], sumMethods[mi]
		batch, n := p.batch, p.n
		c.Note("%s batch=%d n=%d rowLen=%d rows=%d", method, batch, n, w.rowLen, w.rows)
		re, im := w.ramp()
		sig := "C11/" + w.scheme + "/" + method
		valid := batch > 0 && n > 0
		l := batch * n
		bud := budget{terms: max(n, 1), ks: 2*bits.Len(uint(max(n, 1))) + 2, div: 1}
		if !valid {
			c.Cover("pair", "invalid")
		}

		noP := false // set when the one known no-auxiliary-modulus panic was recorded for this leaf
		run := func(list []uint64, in *rlwe.Ciphertext, f func(o *ops, in, out *rlwe.Ciphertext) error) (out *rlwe.Ciphertext, err error, pan interface{}) {
			o := w.newOps(list)
			out = in.CopyNew()
			err, pan = uni.Try(func() error { return f(o, in, out) })
			if pan != nil && w.np == 0 && method != "InnerFunction" && isNilDeref(pan) {
				// one root cause, one signature (see FINDINGS.md): PartialTracesSum decomposes with levelP = -1
				cklib.FailOnce(c, cklib.LeafKey(name, pi, mi), sigNoP, "%s: %s(batch=%d,n=%d) on a parameter set without auxiliary modulus P panics: %v", w.name, method, batch, n, pan)
				noP = true
			}
			return
		}

		switch method {
		case "InnerSum":
			// documented precondition: 0 < n*batch <= Slots and n*batch divides Slots (Slots = all rows for BGV)
			slots := w.slots()
			ok := valid && l <= slots && slots%l == 0
			var list []uint64
			if _, pan := uni.Try(func() error { list = w.listInnerSum(batch, n); return nil }); pan != nil {
				if ok {
					c.Fail(sig+"/key-list-panics", "%s: GaloisElementsForInnerSum(%d,%d) panics: %v", w.name, batch, n, pan)
				} else {
					c.Cover("rejected", "InnerSum-list-invalid-args")
				}
				return
			}
			out, err, pan := run(list, w.encryptIn(re, im, coeff), func(o *ops, in, out *rlwe.Ciphertext) error { return o.innerSum(in, batch, n, out) })
			if noP {
				return
			}
			if pan != nil {
				c.Fail(sig+"/panic", "%s: InnerSum(batch=%d,n=%d) panics: %v", w.name, batch, n, pan)
				return
			}
			if !ok {
				if err != nil {
					c.Cover("rejected", "InnerSum-outside-precondition")
					c.Outcome(name, method, "rejected")
					return
				}
				if !valid || l > slots {
					// documented as invalid (n*batch must be in (0, Slots]); accepting it silently is not an error report
					c.Fail(sig+"/invalid-arguments-accepted", "%s: InnerSum(batch=%d,n=%d) with Slots=%d returned no error", w.name, batch, n, slots)
					return
				}
				// accepted although n*batch does not divide Slots: then it must at least compute the sums it documents
			}
			if err != nil && coeff {
				// a scheme-level method may refuse a coefficient-domain ciphertext with an error (bgv.InnerSum over the
				// whole matrix goes through Add, which documents NTT-only operands): a clean refusal, not a wrong result
				c.Cover("rejected", "InnerSum-coefficient-domain")
				return
			}
			if err != nil {
				c.Fail(sig+"/failed-with-advertised-keys", "%s: InnerSum(batch=%d,n=%d) with keys for exactly GaloisElementsForInnerSum: %v", w.name, batch, n, err)
				return
			}
			var wr, wi []int64
			var mask []bool
			if w.rows == 2 && l == slots {
				// "computed as if the plaintext was a 1-D vector of dimension Slots": one group, spanning both rows
				wr, wi = partialTraces(re, len(re), batch, n), im
				mask = make([]bool, slots)
				for j := 0; j < batch && j < slots; j++ {
					mask[j] = true
				}
				c.Cover("innersum", "bgv-full-1d")
			} else {
				wr, wi = partialTraces(re, w.rowLen, batch, n), partialTraces(im, w.rowLen, batch, n)
				mask = leftmostMask(w.rows, w.rowLen, batch, n)
			}
			if !w.compare(c, sig+"/value", out, wr, wi, mask, bud) {
				return
			}
			c.Outcome(name, method, wr, wi)
		case "RotateAndAdd", "PartialTracesSum", "InnerFunction":
			if !valid {
				// no documented behaviour for non-positive arguments beyond "n = 0 or batchSize = 0 is an error"
				if method == "PartialTracesSum" && (n == 0 || batch == 0) {
					_, err, pan := run(nil, w.encrypt(re, im), func(o *ops, in, out *rlwe.Ciphertext) error { return o.rl.PartialTracesSum(in, batch, n, out) })
					if pan != nil || err == nil {
						c.Fail(sig+"/zero-argument-not-rejected", "%s: PartialTracesSum(offset=%d,n=%d): err=%v panic=%v", w.name, batch, n, err, pan)
						return
					}
					c.Cover("rejected", "PartialTracesSum-zero")
				}
				return
			}
			if method == "InnerFunction" && l > w.rowLen {
				return // its documentation assumes Slots/batchSize sub-vectors grouped by n: needs n*batch <= row length
			}
			list := rlwe.GaloisElementsForInnerSum(w.rp, batch, n)
			if method == "RotateAndAdd" {
				list = w.listInnerSum(batch, n)
			}
			out, err, pan := run(list, w.encryptIn(re, im, coeff), func(o *ops, in, out *rlwe.Ciphertext) error {
				switch method {
				case "RotateAndAdd":
					return o.rotateAdd(in, batch, n, out)
				case "PartialTracesSum":
					return o.rl.PartialTracesSum(in, batch, n, out)
				}
				return o.rl.InnerFunction(in, batch, n, o.add, out)
			})
			if noP {
				return
			}
			if err != nil || pan != nil {
				c.Fail(sig+"/failed-with-advertised-keys", "%s: %s(batch=%d,n=%d) with keys for exactly GaloisElementsForInnerSum: err=%v panic=%v", w.name, method, batch, n, err, pan)
				return
			}
			if n >= 2 && batch%w.rowLen != 0 && !(w.np == 0 && method != "InnerFunction") {
				// the refusal side: without any Galois key a sum of two or more distinct rotations must be refused with an error
				if _, err2, pan2 := run(nil, w.encryptIn(re, im, coeff), func(o *ops, in, out *rlwe.Ciphertext) error {
					switch method {
					case "RotateAndAdd":
						return o.rotateAdd(in, batch, n, out)
					case "PartialTracesSum":
						return o.rl.PartialTracesSum(in, batch, n, out)
					}
					return o.rl.InnerFunction(in, batch, n, o.add, out)
				}); pan2 != nil || err2 == nil {
					c.Fail(sig+"/missing-keys-not-refused", "%s: %s(batch=%d,n=%d) on an evaluator without Galois keys: err=%v panic=%v", w.name, method, batch, n, err2, pan2)
					return
				}
				c.Cover("refusal", "sum-without-keys")
			}
			wr, wi := partialTraces(re, w.rowLen, batch, n), partialTraces(im, w.rowLen, batch, n)
			var mask []bool
			if method == "InnerFunction" {
				mask = leftmostMask(w.rows, w.rowLen, batch, n)
			}
			if !w.compare(c, sig+"/value", out, wr, wi, mask, bud) {
				return
			}
			c.Outcome(name, method, wr, wi)
		case "Replicate":
			if !valid || l > w.rowLen {
				return // "a gap of zero values of size batchSize*(n-1) must exist between two consecutive sub-vectors": needs n*batch <= row
			}
			// documented input shape: sub-vectors of size batch separated by batch*(n-1) zeros
			gre, gim := make([]int64, len(re)), make([]int64, len(im))
			for i := range re {
				if (i%w.rowLen)%l < batch {
					gre[i], gim[i] = re[i], im[i]
				}
			}
			list := w.listReplicate(batch, n)
			out, err, pan := run(list, w.encryptIn(gre, gim, coeff), func(o *ops, in, out *rlwe.Ciphertext) error { return o.rl.Replicate(in, batch, n, out) })
			if noP {
				return
			}
			if err != nil || pan != nil {
				c.Fail(sig+"/failed-with-advertised-keys", "%s: Replicate(batch=%d,n=%d) with keys for exactly GaloisElementsForReplicate: err=%v panic=%v", w.name, batch, n, err, pan)
				return
			}
			wr, wi := partialTraces(gre, w.rowLen, -batch, n), partialTraces(gim, w.rowLen, -batch, n)
			if w.rowLen%l == 0 {
				// the documented effect: every sub-vector appears n times in a row
				for i := range wr {
					src := i - ((i%w.rowLen)%l)/batch*batch
					if wr[i] != gre[src] || wi[i] != gim[src] {
						panic("harness: replicate model inconsistent")
					}
				}
			}
			if !w.compare(c, sig+"/value", out, wr, wi, nil, bud) {
				return
			}
			c.Outcome(name, method, wr, wi)
		}
		c.Cover("sum", method)
		if only != nil && valid {
			c.Cover("many-terms", fmt.Sprintf("%s-hw%d", w.scheme, bits.OnesCount(uint(n))))
		}
		switch {
		case !valid:
			c.Cover("pair", "invalid")
		case l > w.rowLen:
			c.Cover("pair", "beyond-row")
		case !isPow2(n):
			c.Cover("pair", "n-not-pow2")
		case n == 1:
			c.Cover("pair", "n=1")
		default:
			c.Cover("pair", "n-pow2")
		}
		if valid && w.rowLen%l != 0 && l <= w.rowLen {
			c.Cover("pair", "not-dividing")
		}
	}}
}

// averageScenario (CKKS): every logBatchSize, keys for exactly GaloisElementsForInnerSum(batch, slots/batch).
func averageScenario(w *world) engine.Scenario {
	name := "average/" + w.name
	logSlots := log2(w.rowLen)
	return engine.Scenario{Name: name, Bound: -1, Fn: func(c *engine.Chooser) {
		w.ensure(c)
		lb := c.Choose(logSlots+2, "logBatch")
		coeff := c.Choose(2, "domain") == 1
		uni.Seed(c, name, lb, coeff)
		re, im := w.ramp()
		ct := w.encryptIn(re, im, coeff)
		if lb > logSlots {
			o := w.newOps(nil)
			out := ct.CopyNew()
			err, pan := uni.Try(func() error { return o.average(ct, lb, out) })
			if pan != nil || err == nil {
				c.Fail("C11/ckks/Average/batch-larger-than-slots-not-rejected", "%s: logBatch=%d logSlots=%d err=%v panic=%v", w.name, lb, logSlots, err, pan)
				return
			}
			c.Cover("rejected", "Average-batch-too-large")
			return
		}
		batch := 1 << lb
		n := w.rowLen / batch
		o := w.newOps(w.listInnerSum(batch, n))
		out := ct.CopyNew()
		if err, pan := uni.Try(func() error { return o.average(ct, lb, out) }); pan != nil && w.np == 0 && isNilDeref(pan) {
			cklib.FailOnce(c, cklib.LeafKey(name, lb), sigNoP, "%s: Average(logBatch=%d) on a parameter set without auxiliary modulus P panics: %v", w.name, lb, pan)
			return
		} else if err != nil || pan != nil {
			c.Fail("C11/ckks/Average/failed-with-advertised-keys", "%s: Average(logBatch=%d) with keys for GaloisElementsForInnerSum(%d,%d): err=%v panic=%v", w.name, lb, batch, n, err, pan)
			return
		}
		wr, wi := partialTraces(re, w.rowLen, batch, n), partialTraces(im, w.rowLen, batch, n)
		// every slot of every sub-vector holds the component-wise average. Noise: the pre-multiplication by
		// n^-1 mod Q and the trace over the order-n subgroup project the fresh noise (no growth), the
		// key-switch noise is counted undivided (sound over-estimate).
		if !w.compare(c, "C11/ckks/Average/value", out, wr, wi, nil, budget{terms: n, ks: 2*bits.Len(uint(n)) + 2, div: float64(n), noiseUndivided: true}) {
			return
		}
		c.Cover("sum", "Average")
		c.Outcome(name, fmt.Sprint(lb), wr)
	}}
}

// userFunctionScenario (BGV): InnerFunction with a user function that is not an addition: f = MulRelin, so the
// leftmost sub-vector of every group must hold the slot-wise *product* of the group's n sub-vectors ("the
// pair-wise recursive evaluation of function over the group"; multiplication mod t is associative and
// commutative, so the documented tree order does not matter). Exact mod t.
func userFunctionScenario(w *world) engine.Scenario {
	name := "userfn/" + w.name
	var ps []pair
	for b := 1; b <= w.rowLen; b++ {
		for n := 1; n <= 8 && n*b <= w.rowLen; n++ {
			ps = append(ps, pair{b, n})
		}
	}
	return engine.Scenario{Name: name, Bound: -1, Fn: func(c *engine.Chooser) {
		w.ensure(c)
		pi := c.Choose(len(ps), "pair")
		uni.Seed(c, name, pi)
		p := ps[pi]
		re, im := w.ramp()
		kg := rlwe.NewKeyGenerator(w.rp)
		rlk := kg.GenRelinearizationKeyNew(w.sk, w.evp...)
		list := rlwe.GaloisElementsForInnerSum(w.rp, p.batch, p.n)
		evk := rlwe.NewMemEvaluationKeySet(rlk, w.galoisKeys(list)...)
		ev := bgv.NewEvaluator(w.bp, evk)
		calls := 0
		f := func(a, b, cc *rlwe.Ciphertext) error { calls++; return ev.MulRelin(a, b, cc) }
		ct := w.encrypt(re, im)
		out := ct.CopyNew()
		if err, pan := uni.Try(func() error { return ev.InnerFunction(ct, p.batch, p.n, f, out) }); err != nil || pan != nil {
			c.Fail("C11/bgv/InnerFunction-product/failed-with-advertised-keys", "%s: batch=%d n=%d err=%v panic=%v", w.name, p.batch, p.n, err, pan)
			return
		}
		t := int64(w.t)
		want := make([]int64, len(re))
		l := p.batch * p.n
		mask := leftmostMask(w.rows, w.rowLen, p.batch, p.n)
		for r := 0; r < w.rows; r++ {
			for g := 0; (g+1)*l <= w.rowLen; g++ {
				for j := 0; j < p.batch; j++ {
					prod := int64(1)
					for i := 0; i < p.n; i++ {
						prod = prod * re[r*w.rowLen+g*l+i*p.batch+j] % t
					}
					want[r*w.rowLen+g*l+j] = prod
				}
			}
		}
		if !w.compare(c, "C11/bgv/InnerFunction-product/value", out, want, im, mask, budget{terms: 1, ks: 1, div: 1}) {
			return
		}
		c.Cover("sum", "InnerFunction-product")
		c.Outcome(name, p.batch, p.n, want, calls)
	}}
}
