package main

import (
	"fmt"
	"math"

	"github.com/tuneinsight/lattigo/v6/core/rlwe"
	"github.com/tuneinsight/lattigo/v6/ring"
	"github.com/tuneinsight/lattigo/v6/schemes/bgv"
	"github.com/tuneinsight/lattigo/v6/schemes/ckks"
	"github.com/tuneinsight/lattigo/v6/utils/sampling"

	"verif/engine"
	"verif/lib/cklib"
	"verif/uni"
)

// A world is one (scheme, ring type, degree, #P, packing) configuration seen through the operations
// C11 talks about. The plain model of a ciphertext is a pair of integer vectors (re, im) of
// rows*rowLen entries (row-major): BGV uses re only (values mod t), CKKS uses re + i*im, the
// conjugate-invariant ring has im = 0. All C11 operations are linear with 0/1 coefficients, so the
// model is exact integer arithmetic and the same for every scheme.
type world struct {
	name    string
	scheme  string // "bgv" | "ckks"
	rt      ring.Type
	logN    int
	np      int
	rows    int // 2 for BGV (2 x N/2 matrix), 1 for CKKS
	rowLen  int // rotation period: N/2 (bgv, ckks standard full), N (ckks conjugate invariant), 2^logSlots (sparse)
	hasConj bool
	keyLP   int // auxiliary level of the evaluation keys (default: all auxiliary primes); see reducedKeys
	keyLQ   int // level of the evaluation keys (default: top)
	gap     int // ciphertext ring degree / plaintext ring degree (BGV), 1 otherwise

	build func(seed uint64)
	built bool

	rp  rlwe.Parameters
	sk  *rlwe.SecretKey
	evp []rlwe.EvaluationKeyParameters

	// scheme specific
	ck  *cklib.Ctx
	bp  bgv.Parameters
	bec *bgv.Encoder
	t   uint64

	// advertised key lists (scheme wrappers)
	listInnerSum  func(batch, n int) []uint64
	listReplicate func(batch, n int) []uint64
	listTrace     func(logN int) []uint64
	// advertised single elements (scheme wrappers): what a user generates keys from
	elRotation func(k int) uint64
	elOrderTwo func() uint64 // CKKS complex conjugation / BGV row swap
}

// ops is the per-leaf evaluator view (keys for exactly one list).
type ops struct {
	rl          *rlwe.Evaluator
	rotate      func(in *rlwe.Ciphertext, k int, out *rlwe.Ciphertext) error
	rotateNew   func(in *rlwe.Ciphertext, k int) (*rlwe.Ciphertext, error)
	conj        func(in, out *rlwe.Ciphertext) error // CKKS Conjugate / BGV RotateRows
	innerSum    func(in *rlwe.Ciphertext, batch, n int, out *rlwe.Ciphertext) error
	rotateAdd   func(in *rlwe.Ciphertext, batch, n int, out *rlwe.Ciphertext) error
	add         func(a, b, c *rlwe.Ciphertext) error
	hoisted     func(in *rlwe.Ciphertext, ks []int) (map[int]*rlwe.Ciphertext, error) // nil: scheme has no such wrapper
	hoistedLazy func(in *rlwe.Ciphertext, ks []int) (map[int]*rlwe.Ciphertext, error)
	average     func(in *rlwe.Ciphertext, logBatch int, out *rlwe.Ciphertext) error // ckks only
	traceNew    func(in *rlwe.Ciphertext, logN int) (*rlwe.Ciphertext, error)       // ckks only
}

func (w *world) slots() int { return w.rows * w.rowLen }

func (w *world) ensure(c *engine.Chooser) {
	if !w.built {
		w.build(c.Seed)
		w.built = true
	}
}

// ---------------------------------------------------------------------------------------------
// CKKS worlds

func ckksWorld(cf cklib.Cfg) *world {
	w := &world{name: "ckks/" + cf.Name, scheme: "ckks", rt: cf.RingType, logN: cf.LogN, np: len(cf.LogP), rows: 1, keyLP: -2, keyLQ: -1}
	w.hasConj = cf.RingType == ring.Standard
	maxLog := cf.LogN - 1
	if cf.RingType == ring.ConjugateInvariant {
		maxLog = cf.LogN
	}
	ls := cf.LogSlots
	if ls < 0 || ls > maxLog {
		ls = maxLog
	}
	w.rowLen = 1 << ls
	w.build = func(seed uint64) {
		x := cklib.NewCtx(seed, cf)
		w.ck = x
		w.rp = x.Params.Parameters
		w.sk = x.Sk
		w.evp = x.EvkPar
		w.listInnerSum = x.Params.GaloisElementsForInnerSum
		w.listReplicate = x.Params.GaloisElementsForReplicate
		w.listTrace = x.Params.GaloisElementsForTrace
		w.elRotation = x.Params.GaloisElementForRotation
		w.elOrderTwo = x.Params.GaloisElementForComplexConjugation
	}
	return w
}

// ---------------------------------------------------------------------------------------------
// BGV worlds

// bgvWorld: t fixes the plaintext ring: its degree is the largest power of two n <= N with t = 1 mod 2n, so
// t=17 at LogN=4/5 gives a plaintext ring smaller than the ciphertext ring (gap 2 / 4). pow2 is the base-2
// decomposition of the evaluation keys (0 = default keys).
func bgvWorld(logN, np int, t uint64, pow2 int) *world {
	nT := 1 << logN
	for (t-1)%uint64(2*nT) != 0 {
		nT >>= 1
	}
	w := &world{name: fmt.Sprintf("bgv/logN%d-P%d-t%d-w%d", logN, np, t, pow2), scheme: "bgv", rt: ring.Standard, logN: logN, np: np,
		rows: 2, rowLen: nT / 2, hasConj: true, t: t, keyLP: -2, keyLQ: -1}
	w.gap = (1 << logN) / nT
	w.build = func(seed uint64) {
		sampling.VerifSeed(engine.Hash(seed, "c11.bgv", w.name))
		lit := bgv.ParametersLiteral{LogN: logN, Q: uni.Primes(logN, 45, 3), PlaintextModulus: t}
		if np > 0 {
			lit.P = uni.Primes(logN, 61, np)
		}
		p, err := bgv.NewParametersFromLiteral(lit)
		if err != nil {
			panic(err)
		}
		w.bp = p
		w.rp = p.Parameters
		w.sk = rlwe.NewKeyGenerator(p).GenSecretKeyNew()
		if pow2 > 0 {
			p2 := pow2
			w.evp = []rlwe.EvaluationKeyParameters{{BaseTwoDecomposition: &p2}}
		}
		if p.MaxSlots() != 2*w.rowLen {
			panic("harness: plaintext ring degree mismatch")
		}
		w.bec = bgv.NewEncoder(p)
		w.listInnerSum = p.GaloisElementsForInnerSum
		w.listReplicate = p.GaloisElementsForReplicate
		w.listTrace = p.GaloisElementsForTrace
		w.elRotation = p.GaloisElementForColRotation
		w.elOrderTwo = p.GaloisElementForRowRotation
	}
	return w
}

// ---------------------------------------------------------------------------------------------
// per-leaf objects (own all randomness: call after uni.Seed)

func (w *world) galoisKeys(galEls []uint64) []*rlwe.GaloisKey {
	return rlwe.NewKeyGenerator(w.rp).GenGaloisKeysNew(galEls, w.sk, w.evp...)
}

func (w *world) level() int {
	if w.keyLQ >= 0 && w.keyLQ < w.rp.MaxLevel() {
		return w.keyLQ // ciphertexts must not be above the level the keys were generated at
	}
	return w.rp.MaxLevel()
}

// ramp returns the canonical input: re_i = i+1, im_i = 2(i+1)+1 (distinct everywhere, not conjugate
// symmetric, so any mis-rotation / row swap / missed conjugation shows).
func (w *world) ramp() (re, im []int64) {
	n := w.slots()
	re, im = make([]int64, n), make([]int64, n)
	for i := 0; i < n; i++ {
		re[i] = int64(i + 1)
		if w.scheme == "ckks" && w.rt == ring.Standard {
			im[i] = int64(2*(i+1) + 1)
		}
	}
	return
}

// encryptIn encrypts and, for coeff = true, hands the ciphertext over in the coefficient domain
// (MetaData.IsNTT == false), a representation every rlwe-level automorphism entry point accepts.
func (w *world) encryptIn(re, im []int64, coeff bool) *rlwe.Ciphertext {
	ct := w.encrypt(re, im)
	if coeff {
		w.toCoeff(ct)
	}
	return ct
}

func (w *world) toCoeff(ct *rlwe.Ciphertext) {
	r := w.rp.RingQ().AtLevel(ct.Level())
	for i := range ct.Value {
		r.INTT(ct.Value[i], ct.Value[i])
	}
	ct.IsNTT = false
}

// keyLevelP: auxiliary level of the evaluation keys (and of every explicit decomposition) of this world.
func (w *world) keyLevelP() int {
	if w.keyLP >= -1 && w.keyLP < w.np-1 {
		return w.keyLP
	}
	return w.np - 1
}

func (w *world) encrypt(re, im []int64) *rlwe.Ciphertext {
	if w.scheme == "bgv" {
		pt := bgv.NewPlaintext(w.bp, w.level())
		v := make([]uint64, len(re))
		for i := range re {
			v[i] = uint64(((re[i] % int64(w.t)) + int64(w.t)) % int64(w.t))
		}
		if err := w.bec.Encode(v, pt); err != nil {
			panic(err)
		}
		ct, err := rlwe.NewEncryptor(w.bp, w.sk).EncryptNew(pt)
		if err != nil {
			panic(err)
		}
		return ct
	}
	x := w.ck
	v := make(cklib.Vec, len(re))
	for i := range re {
		v[i] = cklib.NewC(float64(re[i]), float64(im[i]))
	}
	pt := x.EncodeVec(v, w.level(), x.Params.DefaultScale(), log2(w.rowLen))
	ct, err := rlwe.NewEncryptor(x.Params, w.sk).EncryptNew(pt)
	if err != nil {
		panic(err)
	}
	return ct
}

func log2(n int) int {
	l := 0
	for 1<<l < n {
		l++
	}
	return l
}

// budget describes how much noise the checked result may carry (CKKS only): the result is a sum of
// `terms` rotated copies of fresh ciphertexts, produced with `ks` key switches whose noise may each have
// been duplicated up to `terms` times by later additions, all divided by `div`.
type budget struct {
	terms, ks      int
	div            float64
	noiseUndivided bool // the noise terms are not divided by div (Average: key-switch noise is added after the pre-division)
}

const safety = 16 // fixed safety factor on the derived bound (DESIGN C06/C11), never tuned

// compare checks the decryption of ct against the model on the slots where mask is true (nil: all).
func (w *world) compare(c *engine.Chooser, sig string, ct *rlwe.Ciphertext, wantRe, wantIm []int64, mask []bool, b budget) bool {
	if ct == nil {
		c.Fail(sig+"/nil-output", "%s: nil ciphertext returned", w.name)
		return false
	}
	if w.scheme == "bgv" {
		pt := rlwe.NewDecryptor(w.bp, w.sk).DecryptNew(ct)
		got := make([]uint64, w.slots())
		if err := w.bec.Decode(pt, got); err != nil {
			c.Fail(sig+"/decode-error", "%s: %v", w.name, err)
			return false
		}
		t := int64(w.t)
		for i := range got {
			if mask != nil && !mask[i] {
				continue
			}
			want := uint64(((wantRe[i] % t) + t) % t)
			if got[i] != want {
				c.Fail(sig, "%s: slot %d (row %d col %d) = %d want %d (mod %d); got=%v", w.name, i, i/w.rowLen, i%w.rowLen, got[i], want, w.t, got)
				return false
			}
		}
		return true
	}
	x := w.ck
	if ct.LogDimensions.Cols != log2(w.rowLen) || ct.LogDimensions.Rows != 0 {
		c.Fail(sig+"/logdimensions", "%s: output LogDimensions=%v want {0 %d}", w.name, ct.LogDimensions, log2(w.rowLen))
		return false
	}
	got, err := x.DecryptDecode(ct)
	if err != nil {
		c.Fail(sig+"/decode-error", "%s: %v", w.name, err)
		return false
	}
	scale, _ := ct.Scale.Value.Float64()
	magIn := 3 * float64(w.slots()+1)
	magOut := 0.0
	for i := range wantRe {
		if m := (math.Abs(float64(wantRe[i])) + math.Abs(float64(wantIm[i]))) / b.div; m > magOut {
			magOut = m
		}
	}
	nb := x.NB
	// ε = [ terms·(fresh noise + encoding error of the input) + ks·terms·(key-switch noise) ] / div + decoding error
	eps := float64(b.terms)*(nb.Fresh()/scale+nb.Encode(magIn, scale)) + float64(b.ks)*float64(b.terms)*nb.KeySwitch(ct.Level())/scale
	if !b.noiseUndivided {
		eps /= b.div
	}
	eps += nb.FFTErr(magOut + eps)
	eps *= safety
	c.Logf("eps=%.3g scale=2^%.1f", eps, math.Log2(scale))
	for i := range got {
		if mask != nil && !mask[i] {
			continue
		}
		want := cklib.NewC(float64(wantRe[i])/b.div, float64(wantIm[i])/b.div)
		if d := cklib.DistUpper(got[i], want); !(d <= eps) {
			c.Fail(sig, "%s: slot %d = %v want %v, |diff|=%.3g > eps=%.3g", w.name, i, got[i].Float(), want.Float(), d, eps)
			return false
		}
	}
	return true
}

// newOps builds the evaluator holding keys for exactly galEls (nil rlk is fine: nothing relinearises).
func (w *world) newOps(galEls []uint64) *ops {
	evk := rlwe.NewMemEvaluationKeySet(nil, w.galoisKeys(galEls)...)
	return w.opsFor(evk)
}

func (w *world) opsFor(evk rlwe.EvaluationKeySet) *ops {
	o := &ops{}
	levelP := w.keyLevelP()
	if w.scheme == "bgv" {
		ev := bgv.NewEvaluator(w.bp, evk)
		o.rl = ev.Evaluator
		o.rotate = ev.RotateColumns
		o.rotateNew = ev.RotateColumnsNew
		o.conj = ev.RotateRows
		o.innerSum = ev.InnerSum
		o.rotateAdd = ev.RotateAndAdd
		o.add = func(a, b, cc *rlwe.Ciphertext) error { return ev.Add(a, b, cc) }
		if w.np > 0 {
			o.hoistedLazy = func(in *rlwe.Ciphertext, ks []int) (map[int]*rlwe.Ciphertext, error) {
				ev.DecomposeNTT(in.Level(), levelP, levelP+1, in.Value[1], in.IsNTT, ev.BuffDecompQP)
				m, err := ev.RotateHoistedLazyNew(in.Level(), ks, in, ev.BuffDecompQP)
				if err != nil {
					return nil, err
				}
				out := map[int]*rlwe.Ciphertext{}
				for k, el := range m {
					ct := bgv.NewCiphertext(w.bp, 1, in.Level())
					*ct.MetaData = *in.MetaData
					ev.ModDown(in.Level(), levelP, el, ct)
					out[k] = ct
				}
				return out, nil
			}
		}
		return o
	}
	p := w.ck.Params
	ev := ckks.NewEvaluator(p, evk)
	o.rl = ev.Evaluator
	o.rotate = ev.Rotate
	o.rotateNew = ev.RotateNew
	o.conj = ev.Conjugate
	o.innerSum = ev.InnerSum
	o.rotateAdd = ev.RotateAndAdd
	o.average = ev.Average
	o.traceNew = ev.TraceNew
	o.add = func(a, b, cc *rlwe.Ciphertext) error { return ev.Add(a, b, cc) }
	if w.np > 0 {
		o.hoisted = func(in *rlwe.Ciphertext, ks []int) (map[int]*rlwe.Ciphertext, error) {
			return ev.RotateHoistedNew(in, ks)
		}
		o.hoistedLazy = func(in *rlwe.Ciphertext, ks []int) (map[int]*rlwe.Ciphertext, error) {
			ev.DecomposeNTT(in.Level(), levelP, levelP+1, in.Value[1], in.IsNTT, ev.BuffDecompQP)
			m, err := ev.RotateHoistedLazyNew(in.Level(), ks, in, ev.BuffDecompQP)
			if err != nil {
				return nil, err
			}
			out := map[int]*rlwe.Ciphertext{}
			for k, el := range m {
				ct := ckks.NewCiphertext(p, 1, in.Level())
				*ct.MetaData = *in.MetaData
				ev.ModDown(in.Level(), levelP, el, ct)
				out[k] = ct
			}
			return out, nil
		}
	}
	return o
}

// reducedKeys returns the world with evaluation keys generated below the maximum: at auxiliary level lp
// (fewer auxiliary primes than the parameters have) and level lq. Ciphertexts are then encrypted at lq, and the
// explicit decompositions use lp + 1 auxiliary primes; entry points that decompose with all auxiliary primes
// themselves (the scheme-level RotateHoisted wrappers, PartialTracesSum) are not part of such a world.
func reducedKeys(w *world, lq, lp int) *world {
	w.name += fmt.Sprintf("-keys(Q%d,P%d)", lq, lp)
	w.keyLP, w.keyLQ = lp, lq
	inner := w.build
	w.build = func(seed uint64) {
		inner(seed)
		q, p := lq, lp
		w.evp = []rlwe.EvaluationKeyParameters{{LevelQ: &q, LevelP: &p}}
	}
	return w
}
