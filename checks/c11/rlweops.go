package main

import (
	"fmt"
	"math/bits"

	"github.com/tuneinsight/lattigo/v6/core/rlwe"

	"verif/engine"
	"verif/uni"
)

func rwRamp(n int) []int64 {
	co := make([]int64, n)
	for i := range co {
		co[i] = int64(i + 1)
	}
	return co
}

// rwAutoScenario: every element of the Galois group (±5^k), key for exactly that element, through
// Automorphism, AutomorphismHoisted and AutomorphismHoistedLazy+ModDown; coefficient-domain oracle.
func rwAutoScenario(w *rw) engine.Scenario {
	name := "automorphism/" + w.name
	N := 1 << w.logN
	return engine.Scenario{Name: name, Bound: -1, Fn: func(c *engine.Chooser) {
		w.ensure(c)
		gi := c.Choose(N, "galEl")
		uni.Seed(c, name, gi)
		g := uint64(2*gi + 1) // every odd residue mod 2N
		co := rwRamp(N)
		ct := w.encrypt(co)
		want := autoCoeffs(co, g)
		ev := rlwe.NewEvaluator(w.p, rlwe.NewMemEvaluationKeySet(nil, w.keys([]uint64{g})...))
		out := ct.CopyNew()
		if err, pan := uni.Try(func() error { return ev.Automorphism(ct, g, out) }); err != nil || pan != nil {
			c.Fail("C11/rlwe/Automorphism/failed-with-its-key", "%s: galEl=%d err=%v panic=%v", w.name, g, err, pan)
			return
		}
		if !w.check(c, "C11/rlwe/Automorphism/value", out, want, nil, 1, 1) {
			return
		}
		if out.IsNTT != w.ntt {
			c.Fail("C11/rlwe/Automorphism/metadata", "%s: IsNTT=%v", w.name, out.IsNTT)
			return
		}
		if w.np > 0 && g != 1 {
			lp := w.np - 1
			outH := ct.CopyNew()
			if err, pan := uni.Try(func() error {
				ev.DecomposeNTT(ct.Level(), lp, lp+1, ct.Value[1], ct.IsNTT, ev.BuffDecompQP)
				return ev.AutomorphismHoisted(ct.Level(), ct, ev.BuffDecompQP, g, outH)
			}); err != nil || pan != nil {
				c.Fail("C11/rlwe/AutomorphismHoisted/failed-with-its-key", "%s: galEl=%d err=%v panic=%v", w.name, g, err, pan)
				return
			}
			if !w.check(c, "C11/rlwe/AutomorphismHoisted/value", outH, want, nil, 1, 1) {
				return
			}
			outL := ct.CopyNew()
			if err, pan := uni.Try(func() error {
				ev.DecomposeNTT(ct.Level(), lp, lp+1, ct.Value[1], ct.IsNTT, ev.BuffDecompQP)
				el := rlwe.NewElementExtended(w.p, 1, ct.Level(), lp)
				if err := ev.AutomorphismHoistedLazy(ct.Level(), ct, ev.BuffDecompQP, g, el); err != nil {
					return err
				}
				ev.ModDown(ct.Level(), lp, el, outL)
				return nil
			}); err != nil || pan != nil {
				c.Fail("C11/rlwe/AutomorphismHoistedLazy/failed-with-its-key", "%s: galEl=%d err=%v panic=%v", w.name, g, err, pan)
				return
			}
			if !w.check(c, "C11/rlwe/AutomorphismHoistedLazy/value", outL, want, nil, 1, 1) {
				return
			}
			c.Cover("rlwe-auto", "hoisted")
		}
		c.Cover("rlwe-auto", fmt.Sprintf("ntt-%v", w.ntt))
		c.Outcome(name, want)
	}}
}

// rwSumsScenario: PartialTracesSum / Replicate / InnerFunction(user function) / Trace on plain RLWE
// ciphertexts (both NTT flags), coefficient-domain oracle Σ_i phi_{5^(i*offset)}.
func rwSumsScenario(w *rw) engine.Scenario {
	name := "rlwesums/" + w.name
	N := 1 << w.logN
	half := N / 2
	var ps []pair
	for b := 1; b <= half; b++ {
		for n := 1; n*b <= half; n++ {
			ps = append(ps, pair{b, n})
		}
	}
	methods := []string{"PartialTracesSum", "Replicate", "InnerFunction-user"}
	return engine.Scenario{Name: name, Bound: -1, Fn: func(c *engine.Chooser) {
		w.ensure(c)
		pi := c.Choose(len(ps)+w.logN, "pair-or-trace")
		co := rwRamp(N)
		m := uint64(2 * N)
		if pi >= len(ps) {
			// Trace, every depth
			logN := pi - len(ps)
			uni.Seed(c, name, "trace", logN)
			list := rlwe.GaloisElementsForTrace(w.p, logN)
			ev := rlwe.NewEvaluator(w.p, rlwe.NewMemEvaluationKeySet(nil, w.keys(list)...))
			ct := w.encrypt(co)
			out := ct.CopyNew()
			if err, pan := uni.Try(func() error { return ev.Trace(ct, logN, out) }); err != nil || pan != nil {
				c.Fail("C11/rlwe/Trace/failed-with-advertised-keys", "%s: logN=%d err=%v panic=%v", w.name, logN, err, pan)
				return
			}
			gap := N
			if logN > 0 {
				gap = N >> (logN + 1)
			}
			want := make([]int64, N)
			steps := 0
			for i := range want {
				if i%gap == 0 {
					want[i] = co[i]
				}
			}
			for g := gap; g > 1; g >>= 1 {
				steps++
			}
			if !w.check(c, "C11/rlwe/Trace/value", out, want, nil, gap, steps+1) {
				return
			}
			c.Cover("rlwe-sum", fmt.Sprintf("Trace-ntt-%v", w.ntt))
			c.Outcome(name, "trace", logN)
			return
		}
		mi := c.Choose(len(methods), "method")
		uni.Seed(c, name, pi, mi)
		p := ps[pi]
		off := p.batch
		if methods[mi] == "Replicate" {
			off = -p.batch
		}
		var list []uint64
		if off < 0 {
			list = rlwe.GaloisElementsForReplicate(w.p, p.batch, p.n)
		} else {
			list = rlwe.GaloisElementsForInnerSum(w.p, p.batch, p.n)
		}
		ev := rlwe.NewEvaluator(w.p, rlwe.NewMemEvaluationKeySet(nil, w.keys(list)...))
		ct := w.encrypt(co)
		out := ct.CopyNew()
		want := make([]int64, N)
		for i := 0; i < p.n; i++ {
			want = addVec(want, autoCoeffs(co, pow5(i*off, m)))
		}
		var err error
		var pan interface{}
		switch methods[mi] {
		case "PartialTracesSum":
			err, pan = uni.Try(func() error { return ev.PartialTracesSum(ct, off, p.n, out) })
		case "Replicate":
			err, pan = uni.Try(func() error { return ev.Replicate(ct, p.batch, p.n, out) })
		case "InnerFunction-user":
			rQ := w.p.RingQ()
			calls := 0
			f := func(a, b, cc *rlwe.Ciphertext) error { // user function: component-wise addition written by the caller
				calls++
				lvl := a.Level()
				if b.Level() < lvl {
					lvl = b.Level()
				}
				r := rQ.AtLevel(lvl)
				r.Add(a.Value[0], b.Value[0], cc.Value[0])
				r.Add(a.Value[1], b.Value[1], cc.Value[1])
				return nil
			}
			err, pan = uni.Try(func() error { return ev.InnerFunction(ct, p.batch, p.n, f, out) })
			if err == nil && pan == nil && p.n > 1 && calls == 0 {
				c.Fail("C11/rlwe/InnerFunction/user-function-never-called", "%s: batch=%d n=%d", w.name, p.batch, p.n)
				return
			}
		}
		if pan != nil && w.np == 0 && methods[mi] != "InnerFunction-user" && isNilDeref(pan) {
			c.Fail(sigNoP, "%s: %s(batch=%d,n=%d) on a parameter set without auxiliary modulus P panics: %v", w.name, methods[mi], p.batch, p.n, pan)
			return
		}
		fn := map[string]string{"PartialTracesSum": "PartialTracesSum", "Replicate": "PartialTracesSum", "InnerFunction-user": "InnerFunction"}[methods[mi]] // Replicate is PartialTracesSum with a negative offset
		cls := fmt.Sprintf("C11/rlwe/%s/%s/%s", fn, map[bool]string{true: "NTT", false: "non-NTT"}[w.ntt], map[bool]string{true: "n=1", false: "n>1"}[p.n == 1])
		if err != nil || pan != nil {
			c.Fail(cls+"/failed-with-advertised-keys", "%s: batch=%d n=%d err=%v panic=%v", w.name, p.batch, p.n, err, pan)
			return
		}
		// InnerFunction only promises the tree result, which for an associative commutative function is the same sum,
		// but in the coefficient domain every coefficient is determined: compare all of them.
		if out.IsNTT != w.ntt {
			c.Fail(cls+"/metadata", "%s: %s batch=%d n=%d: output IsNTT=%v, input and parameters IsNTT=%v", w.name, methods[mi], p.batch, p.n, out.IsNTT, w.ntt)
			out.IsNTT = w.ntt // keep judging the value under the flag the output should carry
		}
		if !w.check(c, cls+"/value", out, want, nil, p.n, 2*bits.Len(uint(p.n))+2) {
			return
		}
		c.Cover("rlwe-sum", fmt.Sprintf("%s-ntt-%v", methods[mi], w.ntt))
		c.Outcome(name, methods[mi], want)
	}}
}

// rwManyTermsScenario: counts n of large Hamming weight (2^k-1 and neighbours): PartialTracesSum accumulates
// HW(n) rotated terms mod QP before it reduces / divides by P, which is where a lazily reduced accumulator
// comes closest to 2^64 (with 61-bit primes from 9 terms on). Keys from exactly the advertised list,
// coefficient-domain oracle Σ_{i<n} phi_{5^(i*offset)} (n may exceed the order of 5: terms then repeat).
func rwManyTermsScenario(w *rw, ns []int) engine.Scenario {
	name := "manyterms/" + w.name
	N := 1 << w.logN
	offs := []int{1, -1, 3}
	return engine.Scenario{Name: name, Bound: -1, Fn: func(c *engine.Chooser) {
		w.ensure(c)
		n := ns[c.Choose(len(ns), "n")]
		off := offs[c.Choose(len(offs), "offset")]
		uni.Seed(c, name, n, off)
		co := rwRamp(N)
		m := uint64(2 * N)
		var list []uint64
		if off < 0 {
			list = rlwe.GaloisElementsForReplicate(w.p, -off, n)
		} else {
			list = rlwe.GaloisElementsForInnerSum(w.p, off, n)
		}
		ev := rlwe.NewEvaluator(w.p, rlwe.NewMemEvaluationKeySet(nil, w.keys(list)...))
		ct := w.encrypt(co)
		out := ct.CopyNew()
		err, pan := uni.Try(func() error {
			if off < 0 {
				return ev.Replicate(ct, -off, n, out)
			}
			return ev.PartialTracesSum(ct, off, n, out)
		})
		if err != nil || pan != nil {
			c.Fail("C11/rlwe/PartialTracesSum/many-terms/failed-with-advertised-keys", "%s: offset=%d n=%d err=%v panic=%v", w.name, off, n, err, pan)
			return
		}
		want := make([]int64, N)
		for i := 0; i < n; i++ {
			want = addVec(want, autoCoeffs(co, pow5(i*off, m)))
		}
		if !w.check(c, "C11/rlwe/PartialTracesSum/many-terms/value", out, want, nil, n, 2*bits.Len(uint(n))+2) {
			return
		}
		c.Cover("many-terms", fmt.Sprintf("rlwe-hw%d", bits.OnesCount(uint(n))))
		c.Outcome(name, n, off)
	}}
}
