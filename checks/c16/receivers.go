package main

import (
	"fmt"

	"github.com/tuneinsight/lattigo/v6/core/rlwe"
	"github.com/tuneinsight/lattigo/v6/ring"

	"verif/engine"
	"verif/uni"
)

// Receiver shapes of a finalisation call (KeySwitch of both protocols, GetEncryption, Finalize / Transform). The
// call is deterministic, so whatever receiver it is given, the out-of-place result must be the in-place / reference
// result: same level, same degree, same polynomials, same metadata. A receiver the call cannot use may be refused
// with an error (counted), never filled with something else.
type finalCall struct {
	sig       string                                   // C16/<proto>/<Func>
	rp        rlwe.Parameters                          // parameters of the result
	want      *rlwe.Ciphertext                         // the reference result (in-place call / receiver allocated at the result's level)
	alloc     func(degree, level int) *rlwe.Ciphertext // scheme-specific allocation
	run       func(out *rlwe.Ciphertext) error         // the call with the fixed inputs, writing into out
	checkMeta bool                                     // the call documents / sets the receiver's metadata
	preMeta   bool                                     // the caller is expected to set the metadata (GetEncryption): receivers get the reference's
}

var receiverShapes = [...]string{"fresh-at-result-level", "fresh-above", "fresh-below", "degree-2", "stale-content-above", "stale-content-at-level"}

func receiverAxis(c *engine.Chooser, f finalCall, key ...interface{}) bool {
	lvl, max := f.want.Level(), f.rp.MaxLevel()
	for si, shape := range receiverShapes {
		var out *rlwe.Ciphertext
		switch si {
		case 0:
			out = f.alloc(1, lvl)
		case 1:
			if lvl == max {
				continue
			}
			out = f.alloc(1, max)
		case 2:
			if lvl == 0 {
				continue
			}
			out = f.alloc(1, 0)
		case 3:
			out = f.alloc(2, lvl)
		case 4, 5:
			l := max
			if si == 5 {
				l = lvl
			}
			out = f.alloc(1, l)
			us := ring.NewUniformSampler(uni.KeyedPRNG(append(key, "stale-receiver", si)...), f.rp.RingQ().AtLevel(l))
			for i := range out.Value {
				us.Read(out.Value[i])
			}
			out.IsNTT = !f.want.IsNTT
			out.IsBatched = !f.want.IsBatched
			out.LogDimensions.Cols = (f.want.LogDimensions.Cols + 1) % 3
			out.Scale = rlwe.NewScale(7)
		}
		if f.preMeta {
			*out.MetaData = *f.want.MetaData
		}
		err, pan := uni.Try(func() error { return f.run(out) })
		c.Cover("receiver", shape)
		if pan != nil {
			c.Fail(f.sig+"/receiver-shape/panic", "receiver %s (result level %d): %v", shape, lvl, pan)
			return false
		}
		if err != nil {
			if si == 0 {
				c.Fail(f.sig+"/receiver-shape/refused-at-result-level", "receiver %s: %v", shape, err)
				return false
			}
			c.Cover("receiver-refused", shape)
			continue
		}
		why := ""
		switch {
		case out.Level() != lvl:
			why = fmt.Sprintf("level %d, the in-place result has level %d", out.Level(), lvl)
		case out.Degree() != f.want.Degree():
			why = fmt.Sprintf("degree %d, the in-place result has degree %d", out.Degree(), f.want.Degree())
		case f.checkMeta && !out.MetaData.Equal(f.want.MetaData):
			why = "metadata differ from the in-place result's"
		default:
			for i := range f.want.Value {
				if !out.Value[i].Equal(&f.want.Value[i]) {
					why = fmt.Sprintf("polynomial %d differs from the in-place result's", i)
					break
				}
			}
		}
		if why != "" {
			c.Fail(f.sig+"/receiver-shape/differs-from-in-place-result", "receiver %s (result level %d of max %d): %s", shape, lvl, max, why)
			return false
		}
	}
	return true
}
