package main

import (
	"fmt"
	"math"
	"math/big"
	"math/bits"

	"github.com/tuneinsight/lattigo/v6/core/rlwe"
	"github.com/tuneinsight/lattigo/v6/multiparty"
	"github.com/tuneinsight/lattigo/v6/multiparty/mpckks"
	"github.com/tuneinsight/lattigo/v6/ring"
	"github.com/tuneinsight/lattigo/v6/schemes/ckks"
	"github.com/tuneinsight/lattigo/v6/utils"
	"github.com/tuneinsight/lattigo/v6/utils/bignum"

	"verif/engine"
	"verif/lib/mp"
	"verif/ref"
	"verif/uni"
)

// ckksWorld: parties, message, its plaintext polynomial (exact integers) and its encryption.
type ckksWorld struct {
	params   ckks.Parameters
	rp       rlwe.Parameters
	P        *mp.Parties
	enc      *ckks.Encoder
	values   []complex128 // batched: the slot values; not batched: v_i + i*v_{i+slots} of the coefficient values
	ct       *rlwe.Ciphertext
	ptCoeffs []*big.Int // centred coefficients of the encoded plaintext
	slots    int
	dslots   int
	gap      int
	flood    ring.DiscreteGaussian
	sup      *big.Int
	minLevel int
	logBound uint
	lin      int
	ci       bool
	// output side of a masked transformation (= the input side unless the scenario switches parameters)
	pout   ckks.Parameters
	rpOut  rlwe.Parameters
	POut   *mp.Parties
	gapOut int
}

// newCKKSWorld returns nil (and skips the leaf) when the chain has no room for the requested level.
func newCKKSWorld(c *engine.Chooser, name string, k cfg) *ckksWorld {
	w := &ckksWorld{params: k.chain.CKKS(k.logScale)}
	w.rp = w.params.Parameters
	uni.Seed(c, name, "setup")
	w.P = mp.NewParties(w.rp, k.n)
	w.enc = newEncoder(w.params)
	inScale := w.params.DefaultScale()
	if k.inScale != 0 {
		inScale = rlwe.NewScale(new(big.Float).SetInt(new(big.Int).Lsh(big.NewInt(1), uint(k.inScale))))
	}
	maxL := w.rp.MaxLevel()
	switch k.scaleKind {
	case "nd": // not a power of two, more than 53 significant bits: 2^k + 2^(k-53) - 1
		ls := uint(k.logScale)
		v := new(big.Int).Lsh(big.NewInt(1), ls)
		v.Add(v, new(big.Int).Lsh(big.NewInt(1), ls-53))
		v.Sub(v, big.NewInt(1))
		inScale = rlwe.NewScale(new(big.Float).SetPrec(256).SetInt(v))
	case "rescaled": // the scale two rescalings leave from the squared default scale: 2^(2k) / (q_max * q_(max-1))
		f := new(big.Float).SetPrec(256).SetInt(new(big.Int).Lsh(big.NewInt(1), uint(2*k.logScale)))
		f.Quo(f, new(big.Float).SetPrec(256).SetUint64(w.params.Q()[maxL]))
		f.Quo(f, new(big.Float).SetPrec(256).SetUint64(w.params.Q()[maxL-1]))
		inScale = rlwe.NewScale(f)
	}
	if k.scaleKind != "" {
		c.Cover("ckks-scale", k.scaleKind)
	}
	var ok bool
	lambda := 128 // security parameter given to GetMinimumLevelForRefresh, as in the repository's tests
	if k.lambda > 0 {
		lambda = k.lambda
	}
	if k.lambda < 0 {
		// boundary search: the largest security parameter for which some partial product Q_k (k below the top level)
		// lies in [2^(L+floor(log2 n)), n*2^L), L = lambda + ceil(log2 scale): the masks of n parties do NOT fit level
		// k (their sum may reach n*2^(L-1) > Q_k/2) although Q_k has more than L + floor(log2 n) bits
		lambda = boundaryLambda(w.params.Q(), inScale, k.n)
		if lambda < 0 {
			c.Skip("no boundary security parameter on this chain")
			return nil
		}
		c.Cover("ckks-boundary", fmt.Sprintf("n%d", k.n))
	}
	c.Cover("ckks-lambda", fmt.Sprint(lambda))
	w.minLevel, w.logBound, ok = mpckks.GetMinimumLevelForRefresh(lambda, inScale, k.n, w.params.Q())
	if !ok {
		c.Skip("GetMinimumLevelForRefresh: no admissible level in this chain")
		return nil
	}
	w.lin = w.minLevel + k.lin // k.lin is the offset from the protocol minimum
	if w.lin > w.rp.MaxLevel() || w.lin < 0 {
		c.Skip("input level outside the chain")
		return nil
	}
	w.ci = w.rp.RingType() == ring.ConjugateInvariant
	w.slots = 1 << k.logSlots
	w.dslots = 2 * w.slots
	if w.ci { // real slots only: one coefficient per slot
		w.dslots = w.slots
	}
	w.gap = w.rp.N() / w.dslots
	w.pout, w.rpOut, w.POut, w.gapOut = w.params, w.rp, w.P, w.gap
	if k.outChain != "" { // parameter switch: another chain and/or ring degree, fresh output keys
		ls := k.logScale
		if v, ok := outScale[k.outChain]; ok {
			ls = v // the output parameters have their own default scale
		}
		w.pout = outChains[k.outChain].CKKS(ls)
		w.rpOut = w.pout.Parameters
		w.POut = mp.NewParties(w.rpOut, k.n)
		w.gapOut = w.rpOut.N() / w.dslots
	}
	encLevel := w.lin
	if k.scaleKind == "rescaled" {
		if w.lin > maxL-2 {
			c.Skip("input level above the level two rescalings leave")
			return nil
		}
		// encode and encrypt at the squared default scale at the top level; the evaluator's Rescale brings it down
		encLevel = maxL
		inScale = rlwe.NewScale(new(big.Float).SetPrec(256).SetInt(new(big.Int).Lsh(big.NewInt(1), uint(2*k.logScale))))
	}
	pt := ckks.NewPlaintext(w.params, encLevel)
	pt.Scale = inScale
	pt.LogDimensions.Cols = k.logSlots
	w.values = make([]complex128, w.slots)
	for i := range w.values {
		// distinct values of modulus < 1
		w.values[i] = complex(0.9*float64(i+1)/float64(w.slots)-0.45, 0.5-0.8*float64(i)/float64(w.slots))
		if k.logScale > 50 {
			// high-precision world: values with 20 fractional bits, so that the float64 arithmetic of the expected
			// value (products with the small dyadic constants of the transforms) is exact
			w.values[i] = complex(math.Round(real(w.values[i])*(1<<20))/(1<<20), math.Round(imag(w.values[i])*(1<<20))/(1<<20))
		}
	}
	if k.batched && w.ci {
		re := make([]float64, w.slots)
		for i := range re {
			re[i] = real(w.values[i])
			w.values[i] = complex(re[i], 0)
		}
		if err := w.enc.Encode(re, pt); err != nil {
			panic(fmt.Sprintf("harness: %v", err))
		}
	} else if k.batched {
		if err := w.enc.Encode(w.values, pt); err != nil {
			panic(fmt.Sprintf("harness: %v", err))
		}
	} else {
		pt.IsBatched = false
		v := make([]float64, w.dslots)
		for i := range w.values {
			v[i], v[i+w.slots] = real(w.values[i]), imag(w.values[i])
		}
		if err := w.enc.Encode(v, pt); err != nil {
			panic(fmt.Sprintf("harness: %v", err))
		}
	}
	Q := uni.QAtLevel(w.rp, encLevel)
	w.ptCoeffs = uni.PolyCoeffs(w.rp.RingQ(), pt.Value, encLevel, pt.IsNTT, false)
	for j := range w.ptCoeffs {
		w.ptCoeffs[j] = ref.Center(w.ptCoeffs[j], Q)
	}
	w.ct = ckks.NewCiphertext(w.params, 1, encLevel)
	if err := rlwe.NewEncryptor(w.rp, w.P.Ideal).Encrypt(pt, w.ct); err != nil {
		panic(fmt.Sprintf("harness: %v", err))
	}
	if k.scaleKind == "rescaled" {
		eval := ckks.NewEvaluator(w.params, nil)
		if err := eval.Rescale(w.ct, w.ct); err != nil {
			panic(fmt.Sprintf("harness: rescale: %v", err))
		}
		if w.ct.Level() != maxL-2 {
			panic(fmt.Sprintf("harness: rescale left level %d, expected %d", w.ct.Level(), maxL-2))
		}
		if w.ct.Level() > w.lin {
			eval.DropLevel(w.ct, w.ct.Level()-w.lin)
		}
		// the message of this ciphertext is what it decrypts to: the phase under the ideal secret (rescaling rounds)
		w.ptCoeffs = mp.Phase(w.rp, w.ct.El(), w.P.Ideal)
	}
	w.flood = mp.Flood(w.rp, k.sigma)
	_, w.sup = mp.KSNoise(w.rp, w.flood)
	return w
}

// newEncoder: 256 bits of internal precision for scales beyond float64's 53 bits.
func newEncoder(p ckks.Parameters) *ckks.Encoder {
	if p.LogDefaultScale() > 50 {
		return ckks.NewEncoder(p, 256)
	}
	return ckks.NewEncoder(p)
}

// sparse returns the dslots coefficients at the positions j*gap.
func (w *ckksWorld) sparse(v []*big.Int) []*big.Int {
	out := make([]*big.Int, w.dslots)
	for j := range out {
		out[j] = v[j*w.gap]
	}
	return out
}

// sparseOut is sparse in the output ring.
func (w *ckksWorld) sparseOut(v []*big.Int) []*big.Int {
	out := make([]*big.Int, w.dslots)
	for j := range out {
		out[j] = v[j*w.gapOut]
	}
	return out
}

// lift places dslots integers at the positions j*gap of a length-N vector (negated if neg).
func (w *ckksWorld) lift(m []*big.Int, neg bool) []*big.Int {
	out := make([]*big.Int, w.rp.N())
	for j := range out {
		out[j] = new(big.Int)
	}
	for j := 0; j < w.dslots; j++ {
		out[j*w.gap].Set(m[j])
		if neg {
			out[j*w.gap].Neg(out[j*w.gap])
		}
	}
	return out
}

func maxDiff(a, b []*big.Int) *big.Int {
	d := make([]*big.Int, len(a))
	for i := range a {
		d[i] = new(big.Int).Sub(a[i], b[i])
	}
	return ref.InfNorm(d)
}

// ckksE2SLeaf: EncToShare then ShareToEnc (proto ckks-e2s: lattice of the decryption shares; ckks-s2e: of the
// re-encryption shares).
func ckksE2SLeaf(c *engine.Chooser, name string, k cfg) {
	cover(c, k)
	w := newCKKSWorld(c, name, k)
	if w == nil {
		return
	}
	rp, n := w.rp, k.n
	lsh, lout := w.lin, resolve(k.lout, rp.MaxLevel())
	if k.lsh >= 0 {
		lsh = w.minLevel + k.lsh
	}
	if lsh > w.lin {
		c.Skip("share level above the ciphertext level")
		return
	}
	if k.lin == 0 {
		c.Cover("ckks-minlevel", "at-minimum")
		coverTight(c, w, k.n)
	}
	inst, hist := axes(c)
	e2s := mp.Instances(inst, n, func() mpckks.EncToShareProtocol {
		p, err := mpckks.NewEncToShareProtocol(w.params, w.flood)
		if err != nil {
			panic(fmt.Sprintf("harness: %v", err))
		}
		return p
	}, func(p mpckks.EncToShareProtocol) mpckks.EncToShareProtocol { return p.ShallowCopy() })
	s2e := mp.Instances(inst, n, func() mpckks.ShareToEncProtocol {
		p, err := mpckks.NewShareToEncProtocol(w.params, w.flood)
		if err != nil {
			panic(fmt.Sprintf("harness: %v", err))
		}
		return p
	}, func(p mpckks.ShareToEncProtocol) mpckks.ShareToEncProtocol { return p.ShallowCopy() })
	pub := make([]multiparty.KeySwitchShare, n)
	sec := make([]multiparty.AdditiveShareBigint, n)
	for i := 0; i < n; i++ {
		var err error
		if hist > 0 { // both objects already served a run: another level, another slot count, another key
			lw := warmLevel(hist, w.lin, rp.MaxLevel())
			if lw < w.minLevel {
				lw = w.minLevel
			}
			skw := w.P.SK[i]
			if hist == 3 {
				skw = w.P.SK[(i+1)%n]
			}
			ctw := ckks.NewCiphertext(w.params, 1, lw)
			ctw.LogDimensions.Cols = (k.logSlots + 1) % w.params.LogMaxSlots()
			_ = rlwe.NewEncryptor(rp, w.P.Ideal).EncryptZero(ctw)
			pw, sw := e2s[i].AllocateShare(lw), mpckks.NewAdditiveShare(w.params, ctw.LogDimensions.Cols)
			_ = e2s[i].GenShare(skw, w.logBound, ctw, &sw, &pw)
			cw := s2e[i].AllocateShare(lw)
			_ = s2e[i].GenShare(skw, s2e[i].SampleCRP(lw, mp.CRS(1)), ctw.MetaData, sw, &cw)
		}
		pub[i] = e2s[i].AllocateShare(lsh)
		sec[i] = mpckks.NewAdditiveShare(w.params, k.logSlots)
		if err = e2s[i].GenShare(w.P.SK[i], w.logBound, w.ct, &sec[i], &pub[i]); err != nil {
			if lsh < w.minLevel {
				c.Cover("ckks-minlevel", "below-minimum-rejected-or-correct")
				c.Outcome(name, "below-minimum-rejected")
				return
			}
			c.Fail("C16/ckks-e2s/GenShare/error-at-admissible-level", "level %d >= GetMinimumLevelForRefresh = %d (logBound %d): %v", lsh, w.minLevel, w.logBound, err)
			return
		}
		// documented: logBound is "the bit length of the masks": |M| < 2^logBound (the implementation centres them,
		// which is not promised and not demanded here)
		lim := new(big.Int).Lsh(big.NewInt(1), w.logBound)
		for _, m := range sec[i].Value[:w.dslots] {
			if new(big.Int).Abs(m).Cmp(lim) >= 0 {
				c.Fail("C16/ckks-e2s/GenShare/mask-longer-than-logBound", "party %d: mask %v has more than %d bits", i, m, w.logBound)
				return
			}
		}
		// share = c1*s_i + e - lift(M_i)
		if !shareNoise(c, "C16/ckks-e2s/GenShare", rp, pub[i].Value, w.ct.Value[1], negKey(rp, w.P.SK[i]), w.lift(sec[i].Value, false), w.sup, i) {
			return
		}
	}
	opsE := mp.KSOps(rp, "C16/ckks-e2s", name+"#e2s", lsh, e2s[0].AggregateShares, e2s[0].AllocateShare)
	aggPub, ok := mp.FoldOrMerge(c, opsE, pub, mp.Search{Mode: k.mode, Variants: true}, k.proto == "ckks-e2s")
	if !ok {
		return
	}
	// A party without key share (secretShare = nil) obtains x - sum M_i from the aggregate. Its result must be its own:
	// no memory shared with the protocol object, and unchanged by a second GetShare on the same object for another
	// ciphertext (the first result is judged after the second call ran).
	{
		first := mpckks.NewAdditiveShare(w.params, k.logSlots)
		e2s[0].GetShare(nil, aggPub, w.ct, &first)
		if inst == 0 && hist == 0 {
			if ov := mp.Overlap([]interface{}{"share returned by GetShare(nil, ...)", &first}, []interface{}{"protocol object", &e2s[0], "aggregate", &aggPub}); ov != "" {
				c.Fail("C16/ckks-e2s/GetShare/output-aliases-callee-or-input", "%s", ov)
				return
			}
		}
		ct2 := w.ct.CopyNew()
		rp.RingQ().AtLevel(ct2.Level()).Add(ct2.Value[0], ct2.Value[1], ct2.Value[0]) // some other ciphertext
		second := mpckks.NewAdditiveShare(w.params, k.logSlots)
		e2s[0].GetShare(nil, aggPub, ct2, &second)
		tot := make([]*big.Int, w.dslots)
		for j := range tot {
			tot[j] = new(big.Int).Set(first.Value[j])
			for i := range sec {
				tot[j].Add(tot[j], sec[i].Value[j])
			}
		}
		lim := new(big.Int).Add(mp.XeSup(rp.Xe()), new(big.Int).Mul(big.NewInt(int64(n)), w.sup))
		if d := maxDiff(tot, w.sparse(w.ptCoeffs)); lsh >= w.minLevel && d.Cmp(lim) > 0 {
			c.Fail("C16/ckks-e2s/GetShare/result-changed-by-a-later-call", "share obtained with secretShare=nil, read after a second GetShare on the same object: |share + sum of masks - plaintext| = %v > %v", d, lim)
			return
		}
		c.Cover("consecutive-calls", "ckks-getshare")
	}
	e2s[0].GetShare(&sec[0], aggPub, w.ct, &sec[0])
	sum := make([]*big.Int, w.dslots)
	for j := range sum {
		sum[j] = new(big.Int)
		for i := range sec {
			sum[j].Add(sum[j], sec[i].Value[j])
		}
	}
	// sum of shares = phase of the ciphertext at the sparse positions = m + e_ct + sum_i e_i, exactly (no
	// wrap-around at or above the minimum level): |sum - m| <= B + N*sup
	eIn := new(big.Int).Add(mp.XeSup(rp.Xe()), new(big.Int).Mul(big.NewInt(int64(n)), w.sup))
	d := maxDiff(sum, w.sparse(w.ptCoeffs))
	if lsh < w.minLevel {
		// below the documented minimum nothing is promised: record only
		c.Cover("ckks-minlevel", "below-minimum-rejected-or-correct")
		c.Outcome(name, "below-minimum-accepted", d.Cmp(eIn) <= 0)
		return
	}
	if d.Cmp(eIn) > 0 {
		c.Fail("C16/ckks-e2s/shares-do-not-sum-to-message", "|sum of the %d additive shares - plaintext polynomial| = %v > %v", n, d, eIn)
		return
	}
	c.Cover("functional", "ckks-e2s-shares-sum")

	crp := s2e[0].SampleCRP(lout, mp.CRS(0))
	c0 := make([]multiparty.KeySwitchShare, n)
	for i := 0; i < n; i++ {
		c0[i] = s2e[i].AllocateShare(lout)
		if err := s2e[i].GenShare(w.P.SK[i], crp, w.ct.MetaData, sec[i], &c0[i]); err != nil {
			c.Fail("C16/ckks-s2e/GenShare/error", "%v", err)
			return
		}
		// share = -crp*s_i + e + lift(share_i)
		if !shareNoise(c, "C16/ckks-s2e/GenShare", rp, c0[i].Value, crp.Value, w.P.SK[i], w.lift(sec[i].Value, true), w.sup, i) {
			return
		}
	}
	opsS := mp.KSOps(rp, "C16/ckks-s2e", name+"#s2e", lout, s2e[0].AggregateShares, s2e[0].AllocateShare)
	aggC0, ok := mp.FoldOrMerge(c, opsS, c0, mp.Search{Mode: k.mode, Variants: true}, k.proto == "ckks-s2e")
	if !ok {
		return
	}
	c.Outcome(name, opsE.Flat(aggPub).Hash(), opsS.Flat(aggC0).Hash())
	rec := ckks.NewCiphertext(w.params, 1, lout)
	*rec.MetaData = *w.ct.MetaData
	if err := s2e[0].GetEncryption(aggC0, crp, rec); err != nil {
		c.Fail("C16/ckks-s2e/GetEncryption/error", "%v", err)
		return
	}
	if rec.Level() != lout {
		c.Fail("C16/ckks-s2e/GetEncryption/wrong-level", "level %d, want %d", rec.Level(), lout)
		return
	}
	if !receiverAxis(c, finalCall{sig: "C16/ckks-s2e/GetEncryption", rp: rp, want: rec, preMeta: true,
		alloc: func(d, l int) *rlwe.Ciphertext { return ckks.NewCiphertext(w.params, d, l) },
		run:   func(o *rlwe.Ciphertext) error { return s2e[0].GetEncryption(aggC0, crp, o) }}, name) {
		return
	}
	// phase = lift(sum of shares) + sum_i e'_i: within eIn + N*sup of the plaintext at the sparse positions,
	// within N*sup of zero elsewhere
	bound := new(big.Int).Add(eIn, new(big.Int).Mul(big.NewInt(int64(n)), w.sup))
	ph := mp.Phase(rp, rec.El(), w.P.Ideal)
	want := w.lift(w.sparse(w.ptCoeffs), false)
	if d := maxDiff(ph, want); d.Cmp(bound) > 0 {
		c.Fail("C16/ckks-s2e/reencryption-not-the-message", "|phase - plaintext polynomial| = %v > %v", d, bound)
		return
	}
	c.Cover("functional", "ckks-s2e-reencrypts")
}

// ckksFunc returns the linear map on the complex vector and its operator norm bound.
func ckksFunc(name string, prec uint) (f func([]*bignum.Complex), g func([]complex128), amp float64) {
	switch name {
	case "id":
		return func([]*bignum.Complex) {}, func([]complex128) {}, 1
	case "scale": // slot-wise scaling by the distinct constants (i+2)/4
		amp = 0
		f = func(v []*bignum.Complex) {
			for i := range v {
				a := bignum.NewFloat(float64(i+2)/4, prec)
				v[i][0].Mul(v[i][0], a)
				v[i][1].Mul(v[i][1], a)
			}
		}
		g = func(v []complex128) {
			for i := range v {
				v[i] *= complex(float64(i+2)/4, 0)
			}
		}
		return f, g, 64 // generous: (i+2)/4 <= 64 for every slot count used here (<= 16 slots)
	case "perm": // rotation by 3 positions
		f = func(v []*bignum.Complex) {
			o := make([]*bignum.Complex, len(v))
			copy(o, v)
			for i := range v {
				v[i] = o[(i+3)%len(v)]
			}
		}
		g = func(v []complex128) {
			o := append([]complex128(nil), v...)
			for i := range v {
				v[i] = o[(i+3)%len(v)]
			}
		}
		return f, g, 1
	}
	return nil, nil, 0
}

// ckksTransformLeaf: RefreshProtocol (tf = "nil") and MaskedLinearTransformationProtocol.
func ckksTransformLeaf(c *engine.Chooser, name string, k cfg) {
	cover(c, k)
	w := newCKKSWorld(c, name, k)
	if w == nil {
		return
	}
	rp, rpo, n := w.rp, w.rpOut, k.n
	lsh, lout := w.lin, resolve(k.lout, rpo.MaxLevel())
	if k.lsh >= 0 {
		lsh = w.minLevel + k.lsh
	}
	if lsh > w.lin {
		c.Skip("share level above the ciphertext level")
		return
	}
	switched := k.outChain != ""
	if switched {
		c.Cover("params-switch", fmt.Sprintf("ckks/%s/N%d->N%d", k.outVia, rp.N(), rpo.N()))
	}
	if w.ci {
		c.Cover("ckks-ring", "conjugate-invariant")
	}
	_, supOut := mp.KSNoise(rpo, w.flood)
	if k.lin == 0 {
		c.Cover("ckks-minlevel", "at-minimum")
		coverTight(c, w, k.n)
	}
	prec := w.logBound + 96 // internal float precision: the masks have logBound bits, 96 guard bits make the FFT error negligible
	refresh := k.proto == "ckks-refresh"
	sig := "C16/" + k.proto
	var tf *mpckks.MaskedLinearTransformationFunc
	var g func([]complex128)
	amp := 1.0
	if k.tf != "nil" {
		var f func([]*bignum.Complex)
		f, g, amp = ckksFunc(k.tf, prec)
		tf = &mpckks.MaskedLinearTransformationFunc{Decode: k.dec, Func: f, Encode: k.enc}
	}
	// flag combinations the documentation refuses
	mustReject := tf != nil && ((tf.Decode && !k.batched) || (tf.Encode && !tf.Decode && k.batched))

	inst, hist := axes(c)
	var rfp []mpckks.RefreshProtocol
	var mtp []mpckks.MaskedLinearTransformationProtocol
	if refresh {
		rfp = mp.Instances(inst, n, func() mpckks.RefreshProtocol {
			p, err := mpckks.NewRefreshProtocol(w.params, prec, w.flood)
			if err != nil {
				panic(fmt.Sprintf("harness: %v", err))
			}
			return p
		}, func(p mpckks.RefreshProtocol) mpckks.RefreshProtocol { return p.ShallowCopy() })
		for i := range rfp {
			mtp = append(mtp, rfp[i].MaskedLinearTransformationProtocol)
		}
	} else {
		mtp = mp.Instances(inst, n, func() mpckks.MaskedLinearTransformationProtocol {
			if k.outVia == "with" { // built for the input parameters, then switched with WithParams
				p, err := mpckks.NewMaskedLinearTransformationProtocol(w.params, w.params, prec, w.flood)
				if err != nil {
					panic(fmt.Sprintf("harness: %v", err))
				}
				return p.WithParams(w.pout)
			}
			p, err := mpckks.NewMaskedLinearTransformationProtocol(w.params, w.pout, prec, w.flood)
			if err != nil {
				panic(fmt.Sprintf("harness: %v", err))
			}
			return p
		}, func(p mpckks.MaskedLinearTransformationProtocol) mpckks.MaskedLinearTransformationProtocol {
			return p.ShallowCopy()
		})
	}
	shares := make([]multiparty.RefreshShare, n)
	crp := mtp[0].SampleCRP(lout, mp.CRS(0))
	for i := 0; i < n; i++ {
		var err error
		if hist > 0 && !mustReject { // the object already produced a share: another level, slot count, key
			lw := warmLevel(hist, w.lin, rp.MaxLevel())
			if lw < w.minLevel {
				lw = w.minLevel
			}
			lwo := warmLevel(hist, lout, rpo.MaxLevel())
			j := i
			if hist == 3 {
				j = (i + 1) % n
			}
			ctw := ckks.NewCiphertext(w.params, 1, lw)
			ctw.LogDimensions.Cols = (k.logSlots + 1) % utils.Min(w.params.LogMaxSlots(), w.pout.LogMaxSlots())
			_ = rlwe.NewEncryptor(rp, w.P.Ideal).EncryptZero(ctw)
			sw := mtp[i].AllocateShare(lw, lwo)
			_ = mtp[i].GenShare(w.P.SK[j], w.POut.SK[j], w.logBound, ctw, mtp[i].SampleCRP(lwo, mp.CRS(1)), nil, &sw)
		}
		shares[i] = mtp[i].AllocateShare(lsh, lout)
		var pan interface{}
		err, pan = uni.Try(func() error {
			if refresh {
				return rfp[i].GenShare(w.P.SK[i], w.logBound, w.ct, crp, &shares[i])
			}
			return mtp[i].GenShare(w.P.SK[i], w.POut.SK[i], w.logBound, w.ct, crp, tf, &shares[i])
		})
		if mustReject {
			if err == nil || pan != nil {
				c.Fail(sig+"/GenShare/undocumented-flags-accepted", "decode=%v encode=%v batched=%v: err=%v panic=%v", k.dec, k.enc, k.batched, err, pan)
				return
			}
			c.Cover("ckks-flags", "rejected")
			c.Outcome(name, "flags-rejected")
			return
		}
		if err != nil || pan != nil {
			c.Fail(sig+"/GenShare/fails-at-admissible-level", "party %d, level %d >= minimum %d: err=%v panic=%v", i, lsh, w.minLevel, err, pan)
			return
		}
	}
	ops := mp.Ops[multiparty.RefreshShare]{
		Sig: sig, Key: name,
		New: func() multiparty.RefreshShare { return mtp[0].AllocateShare(lsh, lout) },
		Agg: func(a, b multiparty.RefreshShare, out *multiparty.RefreshShare) error {
			fresh := out.MetaData.Scale.Value.Sign() == 0 // zero-value metadata: a freshly allocated output
			err := mtp[0].AggregateShares(&a, &b, out)
			if fresh {
				// isolated in scenario refresh-share-metadata/ckks: a freshly allocated output does not receive the metadata
				out.MetaData = a.MetaData
			}
			return err
		},
		Hop: mp.HopRefresh,
		Used: func(which int) multiparty.RefreshShare {
			return mp.UsedRefresh(rp, rpo, mtp[0].AllocateShare, which, name)
		},
		Into: mp.IntoRefresh,
		Flat: func(a multiparty.RefreshShare) mp.Flat { return mp.FlatRefresh(rp, rpo, a) },
	}
	agg, ok := mp.Merge(c, ops, shares, mp.Search{Mode: k.mode, Variants: true})
	if !ok {
		return
	}
	c.Outcome(name, ops.Flat(agg).Hash())
	if inst == 0 && hist == 0 {
		// a party's refresh share is its own: no memory shared with its protocol object, the ciphertext or the crp
		if ov := mp.Overlap([]interface{}{"e2s half", &shares[0].EncToShareShare, "s2e half", &shares[0].ShareToEncShare}, []interface{}{"protocol object", &mtp[0], "ciphertext", &w.ct.Value, "crp", &crp}); ov != "" && n > 1 {
			c.Fail(sig+"/GenShare/output-aliases-input-or-callee", "%s", ov)
			return
		}
		c.Cover("alias", "outputs-vs-inputs-and-callee")
	}

	// expected output polynomial at the sparse positions, as exact rationals scaled to the output scale D:
	// x = what the function sees (in units of the input scale S), y = f(x), out = y * D/S (re-encoded if asked)
	ds := w.pout.DefaultScale()
	D, _ := new(big.Float).Set(&ds.Value).Int(nil)
	S, _ := new(big.Float).Set(&w.ct.Scale.Value).Int(nil)
	want := make([]*big.Int, w.dslots)
	switch {
	case tf == nil:
		// no function: every coefficient is rescaled by D/S (truncated towards zero, like the implementation)
		sp := w.sparse(w.ptCoeffs)
		Sf := new(big.Float).SetPrec(512).Set(&w.ct.Scale.Value) // the exact scale (need not be an integer)
		for j := range want {
			v := new(big.Float).SetPrec(512).SetInt(new(big.Int).Mul(sp[j], D))
			want[j], _ = v.Quo(v, Sf).Int(nil)
		}
	case !tf.Decode && !tf.Encode:
		// coefficients (paired as complex numbers) -> f -> coefficients
		x := make([]*bignum.Complex, w.slots)
		sp := w.sparse(w.ptCoeffs)
		for i := range x {
			x[i] = bignum.NewComplex()
			x[i][0].SetPrec(prec).SetInt(sp[i])
			x[i][1].SetPrec(prec).SetInt(sp[i+w.slots])
		}
		if tf != nil {
			tf.Func(x)
		}
		for i := range x {
			for h, part := range []*big.Float{x[i][0], x[i][1]} {
				v := new(big.Float).SetPrec(prec+256).Mul(part, new(big.Float).SetInt(D))
				v.Quo(v, new(big.Float).SetPrec(512).Set(&w.ct.Scale.Value))
				want[i+h*w.slots], _ = v.Int(nil)
			}
		}
	default:
		// the function sees the slot values (Decode) or the coefficient values as complex numbers (no Decode):
		// in both cases these are w.values (times S); the output is their re-encoding at scale D (Encode) or
		// their real and imaginary parts as coefficients (no Encode)
		y := append([]complex128(nil), w.values...)
		g(y)
		if tf.Encode {
			pt := ckks.NewPlaintext(w.pout, lout)
			pt.LogDimensions.Cols = k.logSlots
			if err := newEncoder(w.pout).Encode(y, pt); err != nil {
				panic(fmt.Sprintf("harness: %v", err))
			}
			co := uni.PolyCoeffs(rpo.RingQ(), pt.Value, lout, pt.IsNTT, false)
			Q := uni.QAtLevel(rpo, lout)
			for j := range want {
				want[j] = ref.Center(co[j*w.gapOut], Q)
			}
		} else {
			for i := range y {
				re, _ := new(big.Float).Mul(big.NewFloat(real(y[i])), new(big.Float).SetInt(D)).Int(nil)
				im, _ := new(big.Float).Mul(big.NewFloat(imag(y[i])), new(big.Float).SetInt(D)).Int(nil)
				want[i], want[i+w.slots] = re, im
			}
		}
	}
	// error budget (sound over-estimate). Input side: eIn = B + N*sup (ciphertext + decryption shares) + 1
	// (encoding rounding). A Decode and/or Encode step is a (inverse) canonical embedding on dslots points: it
	// maps a coefficient error e to at most dslots*e; f multiplies by at most amp. Then the change of scale
	// D/S, one unit of truncation per party and for the aggregate, the re-encryption errors N*sup, and 8 units
	// for the float64 arithmetic of the expected value.
	eIn := new(big.Int).Add(mp.XeSup(rp.Xe()), new(big.Int).Mul(big.NewInt(int64(n)), w.sup))
	eIn.Add(eIn, big.NewInt(1))
	f := big.NewInt(1)
	if tf != nil {
		f.SetInt64(int64(amp))
		if tf.Decode {
			f.Mul(f, big.NewInt(int64(w.dslots)))
		}
		if tf.Encode {
			f.Mul(f, big.NewInt(int64(w.dslots)))
		}
	}
	bound := new(big.Int).Mul(eIn, f)
	bound.Mul(bound, D)
	bound.Div(bound, S)
	bound.Add(bound, big.NewInt(int64(n+2+8)))
	bound.Add(bound, new(big.Int).Mul(big.NewInt(int64(n)), supOut))
	if new(big.Int).Lsh(bound, 3).Cmp(uni.QAtLevel(rpo, lout)) > 0 {
		c.Skip("noise bound above Q/8 at the output level")
		return
	}
	// the output level must hold the message at the output scale: |coefficients| <= amp * dslots * D
	if room := new(big.Int).Lsh(D, uint(8+2*k.logSlots)); room.Cmp(uni.QAtLevel(rpo, lout)) > 0 {
		c.Skip("output level too small for the output scale")
		return
	}

	run := func(in, out *rlwe.Ciphertext) error {
		if refresh {
			return rfp[0].Finalize(in, crp, agg, out)
		}
		return mtp[0].Transform(in, tf, crp, agg, out)
	}
	inpl := w.ct.CopyNew()
	outp := ckks.NewCiphertext(w.pout, 1, lout)
	for i, pair := range [][2]*rlwe.Ciphertext{{inpl, inpl}, {w.ct, outp}} {
		mode := [...]string{"in-place", "out-of-place"}[i]
		if err, pan := uni.Try(func() error { return run(pair[0], pair[1]) }); err != nil || pan != nil {
			c.Fail(sig+"/finalize/fails", "%s: err=%v panic=%v", mode, err, pan)
			return
		}
		res := pair[1]
		if res.Level() != lout {
			c.Fail(sig+"/finalize/wrong-level", "%s: output level %d, requested %d", mode, res.Level(), lout)
			return
		}
		if res.Scale.Cmp(ds) != 0 {
			c.Fail(sig+"/finalize/wrong-scale", "%s: output scale %v, documented: the default scale %v", mode, &res.Scale.Value, &ds.Value)
			return
		}
		wantBatched := k.batched
		if tf != nil {
			wantBatched = tf.Encode
		}
		if res.IsBatched != wantBatched || res.LogDimensions.Cols != k.logSlots {
			c.Fail(sig+"/finalize/wrong-metadata", "%s: IsBatched=%v (want %v), LogSlots=%d (want %d)", mode, res.IsBatched, wantBatched, res.LogDimensions.Cols, k.logSlots)
			return
		}
		ph := w.sparseOut(mp.Phase(rpo, res.El(), w.POut.Ideal))
		if d := maxDiff(ph, want); d.Cmp(bound) > 0 {
			c.Fail(sig+"/finalize/not-f-of-message", "%s (transform %s, decode=%v, encode=%v, batched=%v): |phase - expected| = %v > %v", mode, k.tf, k.dec, k.enc, k.batched, d, bound)
			return
		}
		c.Note("%s: |phase - expected| = %v <= %v", mode, maxDiff(ph, want), bound)
	}
	if !receiverAxis(c, finalCall{sig: sig + "/finalize", rp: rpo, want: inpl, checkMeta: true,
		alloc: func(d, l int) *rlwe.Ciphertext { return ckks.NewCiphertext(w.pout, d, l) },
		run:   func(o *rlwe.Ciphertext) error { return run(w.ct, o) }}, name) {
		return
	}
	c.Cover("functional", k.proto)
}

// coverTight records whether the minimum level leaves less than one bit of slack: Q_min < 2 * N * 2^logBound.
func coverTight(c *engine.Chooser, w *ckksWorld, n int) {
	lim := new(big.Int).Lsh(big.NewInt(int64(2*n)), w.logBound)
	if uni.QAtLevel(w.rp, w.minLevel).Cmp(lim) < 0 {
		c.Cover("ckks-minlevel", "no-slack")
	}
}

// boundaryLambda: see newCKKSWorld. Exact big-integer arithmetic.
func boundaryLambda(moduli []uint64, scale rlwe.Scale, n int) int {
	ls := int(math.Ceil(math.Log2(scale.Float64())))
	fl := bits.Len64(uint64(n)) - 1 // floor(log2 n)
	for lam := 200; lam >= 4; lam-- {
		L := uint(lam + ls)
		lo := new(big.Int).Lsh(big.NewInt(1), L+uint(fl))
		hi := new(big.Int).Lsh(big.NewInt(int64(n)), L)
		Q := big.NewInt(1)
		for k := 0; k+1 < len(moduli); k++ { // k+1 must still be a level of the chain
			Q.Mul(Q, new(big.Int).SetUint64(moduli[k]))
			if Q.Cmp(lo) >= 0 && Q.Cmp(hi) < 0 {
				return lam
			}
		}
	}
	return -1
}

// minLevelScenarios: exact oracle on the quantity GetMinimumLevelForRefresh REPORTS. For every security parameter
// 4..200, 1..8 parties, several scales and modulus chains (primes just below / just above powers of two, between
// powers of two, the repository's Prec45 test primes):
//   - logBound = lambda + ceil(log2 scale);
//   - sound: n * 2^logBound <= Q_minLevel up to a relative 2^-40 for the helper's float64 logarithms (then the centred masks of n parties, whose sum is at most n*2^(logBound-1)
//     in absolute value, cannot wrap modulo Q_minLevel); judged in big integers;
//   - not wasteful by more than the rounding the documentation's ceil() implies: Q_(minLevel-1) < 2*n*2^logBound;
//   - ok = false only when even the whole chain is below 2*n*2^logBound.
func minLevelScenarios() []engine.Scenario {
	type mc struct {
		name string
		q    func() []uint64
	}
	prec45 := []uint64{0x80000000080001, 0x2000000a0001, 0x2000000e0001, 0x2000001d0001, 0x1fffffcf0001, 0x1fffffc20001, 0x200000440001}
	chains := []mc{
		{"prec45-test-primes", func() []uint64 { return prec45 }},
		{"ck40", func() []uint64 { q, _ := mp.ChainCK40.Moduli(); return q }},
		{"ck25", func() []uint64 { q, _ := mp.ChainCK25.Moduli(); return q }},
		{"ck90", func() []uint64 { q, _ := mp.ChainCK90.Moduli(); return q }},
		{"ckfrac", func() []uint64 { q, _ := mp.ChainCKFrac.Moduli(); return q }},
		{"cktight2", func() []uint64 { q, _ := mp.ChainCKTight2.Moduli(); return q }},
	}
	var out []engine.Scenario
	for _, ch := range chains {
		ch := ch
		nm := "minlevel-sweep/" + ch.name
		out = append(out, engine.Scenario{Name: nm, Bound: -1, Fn: func(c *engine.Chooser) {
			moduli := ch.q()
			count := 0
			for _, logScale := range []int{20, 25, 40, 45, 90} {
				for sk := 0; sk < 2; sk++ {
					sv := new(big.Int).Lsh(big.NewInt(1), uint(logScale))
					if sk == 1 { // not a power of two: 2^k + 2^(k-3) + 1, ceil(log2) = k+1
						sv.Add(sv, new(big.Int).Lsh(big.NewInt(1), uint(logScale-3)))
						sv.Add(sv, big.NewInt(1))
					}
					scale := rlwe.NewScale(new(big.Float).SetPrec(256).SetInt(sv))
					ls := logScale + sk
					for lam := 4; lam <= 200; lam++ {
						for n := 1; n <= 8; n++ {
							count++
							minLevel, logBound, ok := mpckks.GetMinimumLevelForRefresh(lam, scale, n, moduli)
							need := new(big.Int).Lsh(big.NewInt(int64(n)), uint(lam+ls)) // n * 2^logBound
							twice := new(big.Int).Lsh(need, 1)
							Q := func(l int) *big.Int { return ref.Prod(moduli[:l+1]) }
							desc := fmt.Sprintf("lambda=%d scale~2^%d%s parties=%d chain=%s", lam, logScale, []string{"", "+"}[sk], n, ch.name)
							if !ok {
								if Q(len(moduli)-1).Cmp(twice) >= 0 {
									c.Fail("C16/GetMinimumLevelForRefresh/refuses-a-chain-with-room", "%s: ok=false although the whole chain has more than log2(n)+1 bits above the mask bound", desc)
									return
								}
								continue
							}
							if int(logBound) != lam+ls {
								c.Fail("C16/GetMinimumLevelForRefresh/wrong-logBound", "%s: logBound=%d, want lambda + ceil(log2 scale) = %d", desc, logBound, lam+ls)
								return
							}
							// float64 tolerance: the helper adds float64 logarithms (a prime 2^60 - 2^18 + 1 has log2 = 60 in
							// float64); a shortfall below 2^-40 of the bound is tolerated (the centred masks then reach Q/2 with
							// probability < n*2^-40 only if the message is also maximal; no claim is made about that event)
							tol := new(big.Int).Rsh(need, 40)
							if minLevel < 0 || minLevel >= len(moduli) || new(big.Int).Add(Q(minLevel), tol).Cmp(need) < 0 {
								c.Fail("C16/GetMinimumLevelForRefresh/reported-level-too-low", "%s: minLevel=%d but Q_minLevel < parties * 2^logBound (log2 Q = %d bits, need > %d bits): the masks of %d parties can wrap", desc, minLevel, Q(max(minLevel, 0)).BitLen(), need.BitLen()-1, n)
								return
							}
							if minLevel > 0 && Q(minLevel-1).Cmp(twice) >= 0 {
								c.Fail("C16/GetMinimumLevelForRefresh/reported-level-too-high", "%s: minLevel=%d although level %d already has more than one spare bit above parties * 2^logBound", desc, minLevel, minLevel-1)
								return
							}
						}
					}
				}
			}
			c.Count(count)
			c.Cover("minlevel-sweep", "checked")
			c.Outcome(nm, count)
		}})
	}
	return out
}
