package main

import (
	"verif/lib/mp"
)

var sigmas = []float64{0, 1 << 10, 1 << 20}

func catalogue(tier string) []cfg {
	th := tier == "thorough"
	var r []cfg
	ns := []int{1, 2, 3, 4}
	full := func(k cfg) cfg { // deviation bound over the non-free axes: 1; 2 in thorough up to 3 parties
		k.mode, k.bound = mp.Full, 1
		if th && k.n <= 3 {
			k.bound = 2
		}
		return k
	}
	ld := func(k cfg, n, b int) cfg { // the cap of the left-deep orders: b departures from index order, at most 2 from 7 parties on except for one protocol per layer
		if n >= 7 && b > 2 && k.proto != "ks-shared" && k.proto != "bgv-refresh" && k.proto != "ckks-refresh" {
			b = 2
		}
		if !th && n >= 8 && k.proto != "ks-shared" && k.proto != "bgv-refresh" {
			b = 1 // quick: the two-departure cap at 8 parties only for one protocol per layer
		}
		k.n, k.mode, k.bound = n, mp.LeftDeep, b
		return k
	}

	// --- RLWE level: KeySwitch to a shared key / to the zero key, PublicKeySwitch -------------------------
	for _, proto := range []string{"ks-shared", "ks-decrypt", "pcks"} {
		for _, ch := range []mp.Chain{mp.ChainMid, mp.ChainMixed, mp.ChainMidCI, mp.ChainMixedCI} {
			maxL := len(ch.QBits) - 1
			for lin := 0; lin <= maxL; lin++ {
				for _, n := range ns {
					for _, sg := range sigmas {
						for _, ntt := range []bool{true, false} {
							if !ntt && (sg == 1<<10 || (ch.Name != "mid" && lin != 1)) {
								continue
							}
							if ch.CI && (n == 4 || (sg == 1<<10 && lin != 0)) {
								continue
							}
							if !th && n == 4 && (sg == 1<<10 || !ntt || lin == 1) {
								continue
							}
							r = append(r, full(cfg{proto: proto, chain: ch, ntt: ntt, n: n, lin: lin, sigma: sg}))
						}
					}
				}
			}
		}
		// ciphertext in the domain the parameters do not use by default: every level, both parameter flags
		for _, ch := range []mp.Chain{mp.ChainMid, mp.ChainMixed, mp.ChainMidCI} {
			for lin := 0; lin < len(ch.QBits); lin++ {
				for _, ntt := range []bool{true, false} {
					for _, n := range []int{1, 2, 3} {
						if ch.Name != "mid" && n == 2 {
							continue
						}
						r = append(r, full(cfg{proto: proto, chain: ch, ntt: ntt, n: n, lin: lin, sigma: sigmas[(lin+n)%3], ctFlip: true}))
					}
				}
			}
		}
		r = append(r, ld(cfg{proto: proto, chain: mp.ChainMid, ntt: true, lin: 1, ctFlip: true}, 5, 2))
		r = append(r, ld(cfg{proto: proto, chain: mp.ChainMid, ntt: false, lin: 2, sigma: 1 << 10, ctFlip: true}, 8, 2))
		// 5..8 parties: left-deep orders within 2 (quick) / 3 (thorough) departures from index order
		b := 2
		if th {
			b = 3
		}
		for _, n := range []int{5, 6, 7, 8} {
			if !th && (n == 6 || n == 7) {
				continue
			}
			r = append(r, ld(cfg{proto: proto, chain: mp.ChainMid, ntt: true, lin: 2, sigma: 1 << 10}, n, b))
			if th || n == 8 {
				r = append(r, ld(cfg{proto: proto, chain: mp.ChainMixedCI, ntt: n%2 == 0, lin: 1}, n, b-1))
			}
		}
		if th { // full lattice at 5 parties
			r = append(r, full(cfg{proto: proto, chain: mp.ChainMid, ntt: true, n: 5, lin: 1}))
		}
	}

	// --- BGV ----------------------------------------------------------------------------------------------
	bgvN := []int{1, 2, 3}
	if th {
		bgvN = []int{1, 2, 3, 4}
	}
	// parameter switch (another chain of the same degree and t, fresh output keys), every function and flag pair
	for _, t := range []uint64{97, 65537} {
		for _, n := range []int{2, 3} {
			r = append(r, full(cfg{proto: "bgv-transform", chain: mp.ChainMixed, ntt: true, n: n, lin: 1, lsh: -1, lout: -1, t: t, tf: "nil", outChain: "mid", outVia: "new"}))
			for _, f := range []string{"id", "scale", "perm"} {
				for _, fl := range [][2]bool{{true, true}, {false, false}, {true, false}, {false, true}} {
					if !th && f == "id" && fl[0] != fl[1] {
						continue
					}
					r = append(r, full(cfg{proto: "bgv-transform", chain: mp.ChainMixed, ntt: true, n: n, lin: 2, lsh: 0, lout: 1, t: t, tf: f, dec: fl[0], enc: fl[1], outChain: "mid", outVia: "new"}))
				}
			}
		}
	}
	r = append(r, full(cfg{proto: "bgv-transform", chain: mp.ChainMid, ntt: true, n: 2, lin: 2, lsh: -1, lout: -1, t: 97, tf: "perm", dec: true, enc: true, outChain: "mixed", outVia: "new"}))
	r = append(r, full(cfg{proto: "bgv-refresh", chain: mp.ChainMixed, ntt: true, n: 4, lin: 1, lsh: -1, lout: -1, t: 65537, tf: "nil"}))
	r = append(r, full(cfg{proto: "bgv-e2s", chain: mp.ChainMixed, ntt: true, n: 4, lin: 2, lsh: -1, lout: -1, t: 97, sigma: 1 << 10}))
	for _, t := range []uint64{97, 65537} {
		for _, n := range bgvN {
			for _, sg := range sigmas {
				for _, lin := range []int{0, 1, 3} {
					for _, lv := range [][2]int{{-1, -1}, {0, 1}} {
						for _, proto := range []string{"bgv-e2s", "bgv-s2e"} {
							if proto == "bgv-s2e" && lin == 1 {
								continue
							}
							r = append(r, full(cfg{proto: proto, chain: mp.ChainMixed, ntt: true, n: n, lin: lin, lsh: lv[0], lout: lv[1], sigma: sg, t: t}))
						}
					}
				}
			}
			if n == 1 {
				continue
			}
			// refresh: every (input level, output level)
			for lin := 0; lin <= 3; lin++ {
				for lout := 0; lout <= 3; lout++ {
					for _, sg := range []float64{0, 1 << 10} {
						if sg != 0 && (lin+lout)%2 == 1 {
							continue
						}
						r = append(r, full(cfg{proto: "bgv-refresh", chain: mp.ChainMixed, ntt: true, n: n, lin: lin, lsh: -1, lout: lout, sigma: sg, t: t, tf: "nil"}))
					}
				}
			}
			r = append(r, full(cfg{proto: "bgv-refresh", chain: mp.ChainMixed, ntt: true, n: n, lin: 2, lsh: 0, lout: 3, sigma: 1 << 20, t: t, tf: "nil"}))
			// masked transform: every function x every flag combination
			for _, f := range []string{"id", "scale", "perm"} {
				for _, dec := range []bool{true, false} {
					for _, enc := range []bool{true, false} {
						r = append(r, full(cfg{proto: "bgv-transform", chain: mp.ChainMixed, ntt: true, n: n, lin: 1, lsh: -1, lout: -1, t: t, tf: f, dec: dec, enc: enc}))
						if th {
							r = append(r, full(cfg{proto: "bgv-transform", chain: mp.ChainMixed, ntt: true, n: n, lin: 3, lsh: 0, lout: 1, sigma: 1 << 10, t: t, tf: f, dec: dec, enc: enc}))
						}
					}
				}
			}
		}
	}
	for _, n := range []int{5, 8} {
		r = append(r, ld(cfg{proto: "bgv-refresh", chain: mp.ChainMixed, ntt: true, lin: 1, lsh: -1, lout: -1, t: 65537, tf: "nil"}, n, 2))
		r = append(r, ld(cfg{proto: "bgv-e2s", chain: mp.ChainMixed, ntt: true, lin: 1, lsh: -1, lout: -1, t: 97}, n, 2))
		r = append(r, ld(cfg{proto: "bgv-s2e", chain: mp.ChainMixed, ntt: true, lin: 3, lsh: -1, lout: -1, t: 97}, n, 2))
	}

	// --- CKKS ---------------------------------------------------------------------------------------------
	type ck struct {
		ch       mp.Chain
		logScale int
	}
	for _, p := range []ck{{mp.ChainCK40, 40}, {mp.ChainCK25, 25}} {
		maxSlots := p.ch.LogN - 1
		for _, n := range ns {
			for _, ls := range []int{0, 1, maxSlots} {
				for _, off := range []int{0, 1, 2} { // input level = protocol minimum + off
					for _, sg := range sigmas {
						if sg == 1<<10 && off != 0 {
							continue
						}
						for _, proto := range []string{"ckks-e2s", "ckks-s2e"} {
							if proto == "ckks-s2e" && off == 1 {
								continue
							}
							r = append(r, full(cfg{proto: proto, chain: p.ch, ntt: true, n: n, lin: off, lsh: -1, lout: -1, sigma: sg, logSlots: ls, logScale: p.logScale, batched: true}))
						}
					}
				}
			}
			// one below the documented minimum: outcome recorded (must be rejected or is simply not promised)
			r = append(r, full(cfg{proto: "ckks-e2s", chain: p.ch, ntt: true, n: n, lin: -1, lsh: -1, lout: -1, logSlots: maxSlots, logScale: p.logScale, batched: true}))
			// share level below the ciphertext level, lower output level
			r = append(r, full(cfg{proto: "ckks-e2s", chain: p.ch, ntt: true, n: n, lin: 1, lsh: 0, lout: 1, logSlots: 1, logScale: p.logScale, batched: true}))
			if n == 1 {
				continue
			}
			for _, off := range []int{0, 1, 2} {
				for _, lout := range []int{-1, 1, 0} {
					for _, in := range []int{0, p.logScale - 10} {
						for _, ls := range []int{0, maxSlots} {
							if in != 0 && ls == 0 && lout != -1 {
								continue
							}
							sg := sigmas[(off+lout+2+ls)%3]
							r = append(r, full(cfg{proto: "ckks-refresh", chain: p.ch, ntt: true, n: n, lin: off, lsh: -1, lout: lout, sigma: sg, logSlots: ls, logScale: p.logScale, inScale: in, tf: "nil", batched: true}))
						}
					}
				}
			}
			r = append(r, full(cfg{proto: "ckks-refresh", chain: p.ch, ntt: true, n: n, lin: 2, lsh: 0, lout: -1, logSlots: 1, logScale: p.logScale, tf: "nil", batched: true}))
			// masked linear transformations: function x flags x batched / coefficient-encoded input
			type tc struct {
				f        string
				dec, enc bool
				batched  bool
			}
			for _, x := range []tc{
				{"id", true, true, true}, {"scale", true, true, true}, {"perm", true, true, true},
				{"perm", false, false, true}, {"scale", false, false, true}, {"scale", true, false, true}, {"id", true, false, true},
				{"scale", false, true, true} /* must be refused */, {"scale", false, true, false}, {"perm", false, true, false},
				{"perm", false, false, false}, {"id", true, true, false} /* must be refused */} {
				slots := []int{maxSlots}
				if x.batched {
					slots = []int{maxSlots, 1}
				}
				for _, ls := range slots {
					r = append(r, full(cfg{proto: "ckks-transform", chain: p.ch, ntt: true, n: n, lin: 0, lsh: -1, lout: -1, logSlots: ls, logScale: p.logScale, tf: x.f, dec: x.dec, enc: x.enc, batched: x.batched}))
					if th {
						r = append(r, full(cfg{proto: "ckks-transform", chain: p.ch, ntt: true, n: n, lin: 1, lsh: 0, lout: 2, sigma: 1 << 10, logSlots: ls, logScale: p.logScale, inScale: p.logScale - 5, tf: x.f, dec: x.dec, enc: x.enc, batched: x.batched}))
					}
				}
			}
		}
	}
	// no slack at the documented minimum: Q_min barely above N * 2^logBound
	for _, sg := range []float64{0, 1 << 10} {
		for _, ls := range []int{3, 0} {
			for _, proto := range []string{"ckks-e2s", "ckks-refresh"} {
				tfn := ""
				if proto == "ckks-refresh" {
					tfn = "nil"
				}
				r = append(r, full(cfg{proto: proto, chain: mp.ChainCKTight1, ntt: true, n: 1, lin: 0, lsh: -1, lout: -1, sigma: sg, logSlots: ls, logScale: 40, tf: tfn, batched: true}))
				r = append(r, full(cfg{proto: proto, chain: mp.ChainCKTight2, ntt: true, n: 2, lin: 0, lsh: -1, lout: -1, sigma: sg, logSlots: ls, logScale: 40, tf: tfn, batched: true}))
			}
		}
	}
	// conjugate-invariant ring (even and odd log N): share conversion and refresh
	for _, p := range []ck{{mp.ChainCK40CI, 40}, {mp.ChainCK25CI, 25}} {
		for _, n := range []int{1, 2, 3} {
			for _, ls := range []int{0, 1, p.ch.LogN} { // single slot (repaired in /repo b0ab35d), two slots, all slots
				for _, off := range []int{0, 1} {
					sg := sigmas[(n+ls+off)%3]
					r = append(r, full(cfg{proto: "ckks-e2s", chain: p.ch, ntt: true, n: n, lin: off, lsh: -1, lout: -1, sigma: sg, logSlots: ls, logScale: p.logScale, batched: true}))
					r = append(r, full(cfg{proto: "ckks-s2e", chain: p.ch, ntt: true, n: n, lin: off, lsh: -1, lout: 1, sigma: sg, logSlots: ls, logScale: p.logScale, batched: true}))
					r = append(r, full(cfg{proto: "ckks-refresh", chain: p.ch, ntt: true, n: n, lin: off, lsh: -1, lout: -1, sigma: sg, logSlots: ls, logScale: p.logScale, inScale: []int{0, p.logScale - 8}[off], tf: "nil", batched: true}))
				}
			}
		}
	}
	// parameter switch of the masked transformation: another chain, twice the degree, half the degree; through the
	// constructor and through WithParams
	type sw struct {
		in       mp.Chain
		logScale int
		out      string
		slots    []int
	}
	for _, x := range []sw{{mp.ChainCK40, 40, "ck40x", []int{3, 1}}, {mp.ChainCK40, 40, "ck40n5", []int{3, 0}}, {mp.ChainCK25, 25, "ck25n4", []int{3, 1}}} {
		for _, via := range []string{"new", "with"} {
			for _, n := range []int{2, 3} {
				for _, ls := range x.slots {
					for _, f := range [][3]interface{}{{"nil", false, false}, {"scale", true, true}, {"perm", true, true}, {"scale", true, false}, {"perm", false, false}} {
						if !th && n == 3 && ls != x.slots[0] {
							continue
						}
						r = append(r, full(cfg{proto: "ckks-transform", chain: x.in, ntt: true, n: n, lin: 0, lsh: -1, lout: -1, logSlots: ls, logScale: x.logScale, tf: f[0].(string), dec: f[1].(bool), enc: f[2].(bool), batched: true, outChain: x.out, outVia: via}))
					}
					r = append(r, full(cfg{proto: "ckks-transform", chain: x.in, ntt: true, n: n, lin: 1, lsh: 0, lout: 1, sigma: 1 << 10, logSlots: ls, logScale: x.logScale, inScale: x.logScale - 6, tf: "nil", batched: true, outChain: x.out, outVia: via}))
				}
			}
		}
	}
	// high-precision world: scale 2^90 with dyadic, non-dyadic (> 53 significant bits) and rescaled input scales
	for _, sk := range []string{"", "nd", "rescaled"} {
		for _, n := range []int{1, 2, 3} {
			for _, off := range []int{0, 1, 2} {
				for _, ls := range []int{3, 1} {
					if ls == 1 && off != 0 {
						continue
					}
					sg := sigmas[(n+off)%3]
					r = append(r, full(cfg{proto: "ckks-refresh", chain: mp.ChainCK90, ntt: true, n: n, lin: off, lsh: -1, lout: []int{-1, 2, 1}[off], sigma: sg, logSlots: ls, logScale: 90, tf: "nil", batched: true, scaleKind: sk}))
					if off != 1 {
						r = append(r, full(cfg{proto: "ckks-e2s", chain: mp.ChainCK90, ntt: true, n: n, lin: off, lsh: -1, lout: -1, sigma: sg, logSlots: ls, logScale: 90, batched: true, scaleKind: sk}))
						r = append(r, full(cfg{proto: "ckks-s2e", chain: mp.ChainCK90, ntt: true, n: n, lin: off, lsh: -1, lout: 3, logSlots: ls, logScale: 90, batched: true, scaleKind: sk}))
					}
				}
			}
			if n == 1 {
				continue
			}
			for _, f := range [][3]interface{}{{"id", true, true}, {"perm", true, true}, {"scale", true, true}, {"perm", false, false}, {"scale", false, false}} {
				r = append(r, full(cfg{proto: "ckks-transform", chain: mp.ChainCK90, ntt: true, n: n, lin: 0, lsh: -1, lout: -1, logSlots: 3, logScale: 90, tf: f[0].(string), dec: f[1].(bool), enc: f[2].(bool), batched: true, scaleKind: sk}))
			}
		}
	}
	// boundary of the minimum level: 3, 5, 6, 7 parties with the security parameter searched so that a partial
	// product lies less than log2(n) bits above the mask bound (index-order aggregation: the level is the subject)
	for _, n := range []int{3, 5, 6, 7} {
		for _, ls := range []int{3, 0} {
			for _, proto := range []string{"ckks-e2s", "ckks-refresh"} {
				tfn := ""
				if proto == "ckks-refresh" {
					tfn = "nil"
				}
				k := cfg{proto: proto, chain: mp.ChainCKFrac, ntt: true, n: n, lin: 0, lsh: -1, lout: -1, sigma: sigmas[ls%3], logSlots: ls, logScale: 25, tf: tfn, batched: true, lambda: -1}
				if n == 3 {
					r = append(r, full(k))
				} else {
					r = append(r, ld(k, n, 1))
				}
			}
		}
	}
	// other log-bound settings: security parameter 64 and 160 instead of 128
	for _, lam := range []int{64, 160} {
		for _, n := range []int{1, 2, 3} {
			for _, off := range []int{0, 1} {
				r = append(r, full(cfg{proto: "ckks-e2s", chain: mp.ChainCK40, ntt: true, n: n, lin: off, lsh: -1, lout: -1, logSlots: 3, logScale: 40, batched: true, lambda: lam}))
				r = append(r, full(cfg{proto: "ckks-refresh", chain: mp.ChainCK40, ntt: true, n: n, lin: off, lsh: -1, lout: -1, sigma: 1 << 10, logSlots: 2, logScale: 40, tf: "nil", batched: true, lambda: lam}))
			}
		}
	}
	for _, n := range []int{4} {
		r = append(r, full(cfg{proto: "ckks-refresh", chain: mp.ChainCK40, ntt: true, n: n, lin: 0, lsh: -1, lout: -1, logSlots: 3, logScale: 40, tf: "nil", batched: true}))
		r = append(r, full(cfg{proto: "ckks-e2s", chain: mp.ChainCK25, ntt: true, n: n, lin: 0, lsh: -1, lout: -1, logSlots: 4, logScale: 25, batched: true}))
		r = append(r, full(cfg{proto: "ckks-transform", chain: mp.ChainCK40, ntt: true, n: n, lin: 0, lsh: -1, lout: -1, logSlots: 3, logScale: 40, tf: "scale", dec: true, enc: true, batched: true}))
	}
	r = append(r, ld(cfg{proto: "ckks-e2s", chain: mp.ChainCK40, ntt: true, lin: 0, lsh: -1, lout: -1, logSlots: 3, logScale: 40, batched: true}, 8, 2))
	r = append(r, ld(cfg{proto: "ckks-refresh", chain: mp.ChainCK40, ntt: true, lin: 0, lsh: -1, lout: -1, logSlots: 3, logScale: 40, tf: "nil", batched: true}, 5, 2))
	if th {
		for _, n := range []int{6, 7, 8} {
			r = append(r, ld(cfg{proto: "ckks-refresh", chain: mp.ChainCK40, ntt: true, lin: 1, lsh: -1, lout: -1, logSlots: 2, logScale: 40, tf: "nil", batched: true}, n, 3))
			r = append(r, ld(cfg{proto: "ckks-s2e", chain: mp.ChainCK25, ntt: true, lin: 0, lsh: -1, lout: -1, logSlots: 4, logScale: 25, batched: true}, n, 3))
			r = append(r, ld(cfg{proto: "bgv-transform", chain: mp.ChainMixed, ntt: true, lin: 1, lsh: -1, lout: -1, t: 65537, tf: "perm", dec: true, enc: true}, n, 3))
		}
	}
	return r
}
