package main

import (
	"fmt"
	"math/big"

	"github.com/tuneinsight/lattigo/v6/core/rlwe"
	"github.com/tuneinsight/lattigo/v6/multiparty"
	"github.com/tuneinsight/lattigo/v6/multiparty/mpbgv"
	"github.com/tuneinsight/lattigo/v6/multiparty/mpckks"
	"github.com/tuneinsight/lattigo/v6/ring"

	"verif/engine"
	"verif/lib/mp"
	"verif/ref"
	"verif/uni"
)

// Smudging lower bound. One leaf = parties x rounds shares (>= 512 error coefficients in total). The error of
// every share is isolated with the harness's own phase computation and pooled:
//
//   - not all zero, every coefficient within the truncation bound (sup);
//   - pooled standard deviation sqrt(mean e^2) >= 1/2 * requested sigma. For n >= 512 independent samples of a
//     (truncated at 6 sigma) Gaussian of deviation >= sigma the statistic n*s^2/sigma^2 is chi-square-like with
//     n degrees of freedom; P[s < sigma/2] = P[chi2_512 < 128] < 2^-100. The run is seeded, so the verdict is
//     reproducible.
const smudgeParties, smudgeCoeffs = 4, 512

// four4 builds the protocol objects of the four smudge parties: a constructed one, a ShallowCopy of it, a copy of
// that copy, and a second constructed one. They live for the whole leaf, i.e. they are reused over the rounds at
// changing levels, ciphertexts and shapes.
func four4[P any](fresh func() P, cp func(P) P) [smudgeParties]P {
	a := fresh()
	b := cp(a)
	return [smudgeParties]P{a, b, cp(b), fresh()}
}

// pools keeps the error coefficients per party, i.e. per kind of protocol object (constructed, copy, copy of a
// copy, second constructed): each kind is judged on its own >= 512 coefficients, so that one kind with the
// right noise cannot cover for another.
type pools [smudgeParties][]*big.Int

func (p *pools) add(i int, e []*big.Int) { p[i] = append(p[i], e...) }
func (p *pools) full() bool {
	for _, x := range p {
		if len(x) < smudgeCoeffs {
			return false
		}
	}
	return true
}

func judgeSmudge(c *engine.Chooser, sig string, ps pools, requested float64, sup *big.Int) {
	kinds := [smudgeParties]string{"constructed", "shallow-copy", "copy-of-copy", "second-constructed"}
	for i, pool := range ps {
		judgeOne(c, sig, kinds[i], pool, requested, sup)
	}
}

func judgeOne(c *engine.Chooser, sig, kind string, pool []*big.Int, requested float64, sup *big.Int) {
	c.Count(len(pool) / 16)
	c.Cover("smudge-object", kind)
	if len(pool) < smudgeCoeffs {
		panic("harness: smudge pool too small")
	}
	if ref.InfNorm(pool).Sign() == 0 {
		c.Fail(sig+"/no-smudging-noise", "%s object: all %d error coefficients are zero", kind, len(pool))
		return
	}
	if n := ref.InfNorm(pool); n.Cmp(sup) > 0 {
		c.Fail(sig+"/noise-above-truncation-bound", "%s object: max |e| = %v > %v", kind, n, sup)
		return
	}
	s := mp.PooledSigma(pool)
	c.Note("pooled sigma %.2f over %d coefficients, requested %.2f, truncation %v", s, len(pool), requested, sup)
	if s < requested/2 {
		c.Fail(sig+"/smudging-noise-below-requested", "%s object: pooled sigma %.2f over %d coefficients < 1/2 * requested sigma %.2f", kind, s, len(pool), requested)
		return
	}
	c.Outcome(sig, kind, fmt.Sprintf("%.3g", s))
}

func smudgeScenarios(tier string) []engine.Scenario {
	var out []engine.Scenario
	add := func(kind string, sigma float64, ntt bool, fn func(c *engine.Chooser, nm string, sigma float64, ntt bool)) {
		nm := fmt.Sprintf("smudge/%s/sigma=%g/ntt=%v", kind, sigma, ntt)
		out = append(out, engine.Scenario{Name: nm, Bound: -1, Fn: func(c *engine.Chooser) {
			c.Cover("smudge", kind)
			c.Cover("sigma", fmt.Sprint(sigma))
			fn(c, nm, sigma, ntt)
		}})
	}
	for _, sg := range sigmas {
		for _, ntt := range []bool{true, false} {
			add("ks", sg, ntt, smudgeKS)
			add("pcks", sg, ntt, smudgePCKS)
		}
		add("bgv-e2s", sg, true, smudgeBGV)
		add("bgv-s2e", sg, true, smudgeBGV)
		add("ckks-e2s", sg, true, smudgeCKKS)
		add("ckks-s2e", sg, true, smudgeCKKS)
	}
	for _, sch := range []string{"bgv", "ckks"} {
		sch := sch
		nm := "refresh-share-metadata/" + sch
		out = append(out, engine.Scenario{Name: nm, Bound: -1, Fn: func(c *engine.Chooser) { refreshShareMetadata(c, nm, sch) }})
	}
	return out
}

func smudgeKS(c *engine.Chooser, nm string, sigma float64, ntt bool) {
	params := mp.ChainMid.RLWE(ntt)
	uni.Seed(c, nm)
	In, Out := mp.NewParties(params, smudgeParties), mp.NewParties(params, smudgeParties)
	flood := mp.Flood(params, sigma)
	_, sup := mp.KSNoise(params, flood)
	ks := four4(func() multiparty.KeySwitchProtocol {
		p, err := multiparty.NewKeySwitchProtocol(params, flood)
		if err != nil {
			panic(fmt.Sprintf("harness: %v", err))
		}
		return p
	}, func(p multiparty.KeySwitchProtocol) multiparty.KeySwitchProtocol { return p.ShallowCopy() })
	var pool pools
	for round := 0; !pool.full(); round++ {
		lvl := round % (params.MaxLevel() + 1)
		ct, _ := encryptUnder(params, In.Ideal, lvl, nm, "pt", round)
		if round%2 == 1 { // every other round: the ciphertext is in the domain the parameters do not use by default
			flipDomain(params, ct)
		}
		coverDomain(c, params, ct)
		for i := 0; i < smudgeParties; i++ {
			p := ks[i]
			sh := p.AllocateShare(lvl)
			p.GenShare(In.SK[i], Out.SK[i], ct, &sh)
			pool.add(i, mp.LinearResidual(params, sh.Value, ct.Value[1], ct.IsNTT, mp.DiffKeys(params, Out.SK[i], In.SK[i])))
		}
	}
	judgeSmudge(c, "C16/smudge/ks", pool, flood.Sigma, sup)
}

func smudgePCKS(c *engine.Chooser, nm string, sigma float64, ntt bool) {
	params := mp.ChainMid.RLWE(ntt)
	uni.Seed(c, nm)
	In := mp.NewParties(params, smudgeParties)
	skOut, pkOut := rlwe.NewKeyGenerator(params).GenKeyPairNew()
	flood := mp.Flood(params, sigma)
	N, B := mp.RingFactor(params), mp.XeSup(params.Xe()).Int64()
	sup := new(big.Int).Add(big.NewInt(N*B+B+N*B+int64(params.PCount()+1)*(1+N)), mp.XeSup(flood)) // see pcksLeaf
	pcks := four4(func() multiparty.PublicKeySwitchProtocol {
		p, err := multiparty.NewPublicKeySwitchProtocol(params, flood)
		if err != nil {
			panic(fmt.Sprintf("harness: %v", err))
		}
		return p
	}, func(p multiparty.PublicKeySwitchProtocol) multiparty.PublicKeySwitchProtocol { return p.ShallowCopy() })
	var pool pools
	for round := 0; !pool.full(); round++ {
		lvl := round % (params.MaxLevel() + 1)
		ct, _ := encryptUnder(params, In.Ideal, lvl, nm, "pt", round)
		if round%2 == 1 { // every other round: the ciphertext is in the domain the parameters do not use by default
			flipDomain(params, ct)
		}
		coverDomain(c, params, ct)
		for i := 0; i < smudgeParties; i++ {
			p := pcks[i]
			sh := p.AllocateShare(lvl)
			p.GenShare(In.SK[i], pkOut, ct, &sh)
			h := &rlwe.Element[ring.Poly]{Value: sh.Value, MetaData: &rlwe.MetaData{}}
			h.IsNTT = ct.IsNTT
			ph := mp.Phase(params, h, skOut)
			c1s := mp.LinearResidual(params, params.RingQ().AtLevel(lvl).NewPoly(), ct.Value[1], ct.IsNTT, In.SK[i])
			pool.add(i, uni.SubCentered(ph, c1s, uni.QAtLevel(params, lvl)))
		}
	}
	judgeSmudge(c, "C16/smudge/pcks", pool, flood.Sigma, sup)
}

func addMod(e, add []*big.Int, Q *big.Int) []*big.Int {
	out := make([]*big.Int, len(e))
	for j := range e {
		out[j] = ref.Center(new(big.Int).Mod(new(big.Int).Add(e[j], add[j]), Q), Q)
	}
	return out
}

func smudgeBGV(c *engine.Chooser, nm string, sigma float64, _ bool) {
	s2e := nm[len("smudge/"):len("smudge/bgv-s2e")] == "bgv-s2e"
	var pool pools
	var w *bgvWorld
	e2sAll := map[uint64][smudgeParties]mpbgv.EncToShareProtocol{}
	s2eAll := map[uint64][smudgeParties]mpbgv.ShareToEncProtocol{}
	for round := 0; !pool.full(); round++ {
		k := cfg{chain: mp.ChainMixed, n: smudgeParties, lin: (round / 2) % 4, sigma: sigma, t: []uint64{97, 65537}[round%2]}
		w = newBGVWorld(c, fmt.Sprintf("%s#%d", nm, round), k)
		rp := w.rp
		if _, ok := e2sAll[k.t]; !ok { // one set of objects per plaintext modulus, reused over the rounds
			e2sAll[k.t] = four4(func() mpbgv.EncToShareProtocol {
				p, err := mpbgv.NewEncToShareProtocol(w.params, w.flood)
				if err != nil {
					panic(fmt.Sprintf("harness: %v", err))
				}
				return p
			}, func(p mpbgv.EncToShareProtocol) mpbgv.EncToShareProtocol { return p.ShallowCopy() })
			s2eAll[k.t] = four4(func() mpbgv.ShareToEncProtocol {
				p, err := mpbgv.NewShareToEncProtocol(w.params, w.flood)
				if err != nil {
					panic(fmt.Sprintf("harness: %v", err))
				}
				return p
			}, func(p mpbgv.ShareToEncProtocol) mpbgv.ShareToEncProtocol { return p.ShallowCopy() })
		}
		crp := s2eAll[k.t][0].SampleCRP(rp.MaxLevel(), mp.CRS(0))
		for i := 0; i < smudgeParties; i++ {
			e2sP, s2eP := e2sAll[k.t][i], s2eAll[k.t][i]
			pub := e2sP.AllocateShare(k.lin)
			sec := mpbgv.NewAdditiveShare(w.params)
			e2sP.GenShare(w.P.SK[i], w.ct, &sec, &pub)
			if !s2e {
				e := mp.LinearResidual(rp, pub.Value, w.ct.Value[1], true, negKey(rp, w.P.SK[i]))
				pool.add(i, addMod(e, w.liftMask(rp, sec.Value.Coeffs[0], k.lin), uni.QAtLevel(rp, k.lin)))
				continue
			}
			c0 := s2eP.AllocateShare(rp.MaxLevel())
			if err := s2eP.GenShare(w.P.SK[i], crp, sec, &c0); err != nil {
				c.Fail("C16/bgv-s2e/GenShare/error", "%v", err)
				return
			}
			neg := w.liftMask(rp, sec.Value.Coeffs[0], rp.MaxLevel())
			for j := range neg {
				neg[j].Neg(neg[j])
			}
			e := mp.LinearResidual(rp, c0.Value, crp.Value, true, w.P.SK[i])
			pool.add(i, addMod(e, neg, uni.QAtLevel(rp, rp.MaxLevel())))
		}
	}
	kind := "bgv-e2s"
	if s2e {
		kind = "bgv-s2e"
	}
	judgeSmudge(c, "C16/smudge/"+kind, pool, w.flood.Sigma, w.sup)
}

func smudgeCKKS(c *engine.Chooser, nm string, sigma float64, _ bool) {
	s2e := nm[len("smudge/"):len("smudge/ckks-s2e")] == "ckks-s2e"
	var pool pools
	var w *ckksWorld
	var e2sAll [smudgeParties]mpckks.EncToShareProtocol
	var s2eAll [smudgeParties]mpckks.ShareToEncProtocol
	for round := 0; !pool.full(); round++ {
		k := cfg{chain: mp.ChainCK40, n: smudgeParties, lin: round % 2, sigma: sigma, logSlots: []int{3, 1, 0}[round%3], logScale: 40, batched: true}
		w = newCKKSWorld(c, fmt.Sprintf("%s#%d", nm, round), k)
		if w == nil {
			panic("harness: smudge world outside the chain")
		}
		rp := w.rp
		if round == 0 { // one set of objects, reused over the rounds (levels, slot counts change)
			e2sAll = four4(func() mpckks.EncToShareProtocol {
				p, err := mpckks.NewEncToShareProtocol(w.params, w.flood)
				if err != nil {
					panic(fmt.Sprintf("harness: %v", err))
				}
				return p
			}, func(p mpckks.EncToShareProtocol) mpckks.EncToShareProtocol { return p.ShallowCopy() })
			s2eAll = four4(func() mpckks.ShareToEncProtocol {
				p, err := mpckks.NewShareToEncProtocol(w.params, w.flood)
				if err != nil {
					panic(fmt.Sprintf("harness: %v", err))
				}
				return p
			}, func(p mpckks.ShareToEncProtocol) mpckks.ShareToEncProtocol { return p.ShallowCopy() })
		}
		crp := s2eAll[0].SampleCRP(rp.MaxLevel(), mp.CRS(0))
		for i := 0; i < smudgeParties; i++ {
			e2sP, s2eP := e2sAll[i], s2eAll[i]
			pub := e2sP.AllocateShare(w.lin)
			sec := mpckks.NewAdditiveShare(w.params, k.logSlots)
			if err := e2sP.GenShare(w.P.SK[i], w.logBound, w.ct, &sec, &pub); err != nil {
				c.Fail("C16/ckks-e2s/GenShare/error-at-admissible-level", "%v", err)
				return
			}
			if !s2e {
				e := mp.LinearResidual(rp, pub.Value, w.ct.Value[1], true, negKey(rp, w.P.SK[i]))
				pool.add(i, addMod(e, w.lift(sec.Value, false), uni.QAtLevel(rp, w.lin)))
				continue
			}
			c0 := s2eP.AllocateShare(rp.MaxLevel())
			if err := s2eP.GenShare(w.P.SK[i], crp, w.ct.MetaData, sec, &c0); err != nil {
				c.Fail("C16/ckks-s2e/GenShare/error", "%v", err)
				return
			}
			e := mp.LinearResidual(rp, c0.Value, crp.Value, true, w.P.SK[i])
			pool.add(i, addMod(e, w.lift(sec.Value, true), uni.QAtLevel(rp, rp.MaxLevel())))
		}
	}
	kind := "ckks-e2s"
	if s2e {
		kind = "ckks-s2e"
	}
	judgeSmudge(c, "C16/smudge/"+kind, pool, w.flood.Sigma, w.sup)
}

// refreshShareMetadata isolates one observation about RefreshShare aggregation: the aggregate of two shares
// written into a freshly allocated share must be usable by Finalize/Transform exactly like the in-place
// aggregate (the order/grouping of aggregation, and where its result is stored, must not matter).
func refreshShareMetadata(c *engine.Chooser, nm, scheme string) {
	inPlace := c.Bool("in-place")
	c.State(nm, inPlace)
	var err error
	var fresh, same bool
	if scheme == "bgv" {
		k := cfg{chain: mp.ChainMixed, n: 2, lin: 1, t: 65537}
		w := newBGVWorld(c, nm, k)
		p, _ := mpbgv.NewRefreshProtocol(w.params, w.flood)
		crp := p.SampleCRP(w.rp.MaxLevel(), mp.CRS(0))
		a, b := p.AllocateShare(1, w.rp.MaxLevel()), p.AllocateShare(1, w.rp.MaxLevel())
		_ = p.GenShare(w.P.SK[0], w.ct, crp, &a)
		_ = p.GenShare(w.P.SK[1], w.ct, crp, &b)
		out := a
		if !inPlace {
			out = p.AllocateShare(1, w.rp.MaxLevel())
		}
		err = p.AggregateShares(a, b, &out)
		fresh, same = !inPlace, out.MetaData.Equal(&b.MetaData)
		if err == nil {
			err = p.Finalize(w.ct, crp, out, w.ct.CopyNew())
		}
	} else {
		k := cfg{chain: mp.ChainCK40, n: 2, lin: 0, logSlots: 3, logScale: 40, batched: true}
		w := newCKKSWorld(c, nm, k)
		p, _ := mpckks.NewRefreshProtocol(w.params, w.logBound+96, w.flood)
		crp := p.SampleCRP(w.rp.MaxLevel(), mp.CRS(0))
		a, b := p.AllocateShare(w.lin, w.rp.MaxLevel()), p.AllocateShare(w.lin, w.rp.MaxLevel())
		_ = p.GenShare(w.P.SK[0], w.logBound, w.ct, crp, &a)
		_ = p.GenShare(w.P.SK[1], w.logBound, w.ct, crp, &b)
		out := a
		if !inPlace {
			out = p.AllocateShare(w.lin, w.rp.MaxLevel())
		}
		err = p.AggregateShares(&a, &b, &out)
		fresh, same = !inPlace, out.MetaData.Equal(&b.MetaData)
		if err == nil {
			err = p.Finalize(w.ct, crp, out, w.ct.CopyNew())
		}
	}
	c.Cover("refresh-share-metadata", fmt.Sprintf("%s/fresh=%v", scheme, fresh))
	c.Outcome(nm, fresh, same, err == nil)
	if !same || err != nil {
		c.Fail("C16/"+scheme+"-refresh-share/AggregateShares/metadata-not-carried", "aggregate into a %s share: metadata equal to the operands' = %v, Finalize: %v",
			map[bool]string{true: "freshly allocated", false: "reused (in-place)"}[fresh], same, err)
	}
}
