package main

import (
	"fmt"
	"math/big"

	"github.com/tuneinsight/lattigo/v6/core/rlwe"
	"github.com/tuneinsight/lattigo/v6/multiparty"
	"github.com/tuneinsight/lattigo/v6/multiparty/mpbgv"
	"github.com/tuneinsight/lattigo/v6/ring"
	"github.com/tuneinsight/lattigo/v6/schemes/bgv"

	"verif/engine"
	"verif/lib/mp"
	"verif/ref"
	"verif/uni"
)

// bgvWorld: parties, a message with distinct slot values, its RingT polynomial and its encryption.
type bgvWorld struct {
	params bgv.Parameters
	rp     rlwe.Parameters
	P      *mp.Parties
	enc    *bgv.Encoder
	values []uint64 // slot values
	pT     []uint64 // the message's plaintext polynomial modulo t (at the ciphertext's scale)
	ct     *rlwe.Ciphertext
	flood  ring.DiscreteGaussian
	sup    *big.Int // per key-switch share
	// output side of a masked transform (= the input side unless the scenario switches parameters)
	pout  bgv.Parameters
	rpOut rlwe.Parameters
	POut  *mp.Parties
}

func newBGVWorld(c *engine.Chooser, name string, k cfg) *bgvWorld {
	w := &bgvWorld{params: k.chain.BGV(k.t)}
	w.rp = w.params.Parameters
	uni.Seed(c, name, "setup")
	w.P = mp.NewParties(w.rp, k.n)
	w.enc = bgv.NewEncoder(w.params)
	t := w.params.PlaintextModulus()
	w.values = make([]uint64, w.params.MaxSlots())
	for i := range w.values {
		w.values[i] = (uint64(7*i+3) * 1000003) % t // distinct for the t used here (97, 65537) and 16 slots
	}
	pt := bgv.NewPlaintext(w.params, k.lin)
	if k.n%2 == 0 {
		pt.Scale = rlwe.NewScaleModT(3, t) // a non-default plaintext scale
	}
	if err := w.enc.Encode(w.values, pt); err != nil {
		panic(fmt.Sprintf("harness: %v", err))
	}
	pT := w.params.RingT().NewPoly()
	if err := w.enc.EncodeRingT(w.values, pt.Scale, pT); err != nil {
		panic(fmt.Sprintf("harness: %v", err))
	}
	w.pT = append([]uint64(nil), pT.Coeffs[0]...)
	w.ct = bgv.NewCiphertext(w.params, 1, k.lin)
	if err := rlwe.NewEncryptor(w.rp, w.P.Ideal).Encrypt(pt, w.ct); err != nil {
		panic(fmt.Sprintf("harness: %v", err))
	}
	w.flood = mp.Flood(w.rp, k.sigma)
	_, w.sup = mp.KSNoise(w.rp, w.flood)
	w.pout, w.rpOut, w.POut = w.params, w.rp, w.P
	if k.outChain != "" { // parameter switch: another modulus chain (same degree, same t), fresh output keys
		w.pout = outChains[k.outChain].BGV(k.t)
		w.rpOut = w.pout.Parameters
		w.POut = mp.NewParties(w.rpOut, k.n)
	}
	return w
}

// inBudget: a BGV phase is m/t + e (mod Q); multiplying by t gives m + t*e, readable modulo t iff
// |m + t*e| < Q/2. parts counts the summands of absolute value < t besides t*e (message, masks).
func (w *bgvWorld) inBudget(rp rlwe.Parameters, lvl int, noise *big.Int, parts int) bool {
	t := new(big.Int).SetUint64(w.params.PlaintextModulus())
	lhs := new(big.Int).Mul(t, new(big.Int).Add(noise, big.NewInt(int64(parts))))
	return lhs.Lsh(lhs, 1).Cmp(uni.QAtLevel(rp, lvl)) < 0
}

// decryptRingT reads a BGV ciphertext with the harness's own phase: (phase * t mod Q, centred) mod t.
func (w *bgvWorld) decryptRingT(rp rlwe.Parameters, ct *rlwe.Ciphertext, sk *rlwe.SecretKey) []uint64 {
	ph := uni.Phase(rp, ct.El(), sk)
	Q := uni.QAtLevel(rp, ct.Level())
	t := new(big.Int).SetUint64(w.params.PlaintextModulus())
	out := make([]uint64, len(ph))
	for j := range ph {
		v := ref.Center(new(big.Int).Mod(new(big.Int).Mul(ph[j], t), Q), Q)
		out[j] = v.Mod(v, t).Uint64()
	}
	return out
}

// liftMask is the harness's own RingT -> RingQ lift with scale-up: M * t^-1 mod Q_lvl.
func (w *bgvWorld) liftMask(rp rlwe.Parameters, M []uint64, lvl int) []*big.Int {
	Q := uni.QAtLevel(rp, lvl)
	tInv := new(big.Int).ModInverse(new(big.Int).SetUint64(w.params.PlaintextModulus()), Q)
	out := make([]*big.Int, len(M))
	for j := range M {
		out[j] = new(big.Int).Mod(new(big.Int).Mul(new(big.Int).SetUint64(M[j]), tInv), Q)
	}
	return out
}

func eqU(a, b []uint64) (bool, string) {
	for i := range a {
		if a[i] != b[i] {
			return false, fmt.Sprintf("coefficient %d: %d != %d", i, a[i], b[i])
		}
	}
	return true, ""
}

func resolve(lvl, def int) int {
	if lvl < 0 {
		return def
	}
	return lvl
}

// shareNoise checks the error of one key-switch-shaped share: residual = share + c1*key (+ add), must be
// non-zero and within the truncation bound.
func shareNoise(c *engine.Chooser, sig string, rp rlwe.Parameters, share, c1 ring.Poly, key *rlwe.SecretKey, add []*big.Int, sup *big.Int, who int) bool {
	e := mp.LinearResidual(rp, share, c1, true, key)
	if add != nil {
		Q := uni.QAtLevel(rp, share.Level())
		for j := range e {
			e[j] = ref.Center(new(big.Int).Mod(new(big.Int).Add(e[j], add[j]), Q), Q)
		}
	}
	if isZero(e) {
		c.Fail(sig+"/no-smudging-noise", "party %d: the share carries no error at all", who)
		return false
	}
	if n := ref.InfNorm(e); n.Cmp(sup) > 0 {
		c.Fail(sig+"/noise-above-truncation-bound", "party %d: |e| = %v > floor(6*sigma_eff+0.5) = %v", who, n, sup)
		return false
	}
	return true
}

func negKey(rp rlwe.Parameters, sk *rlwe.SecretKey) *rlwe.SecretKey {
	return mp.DiffKeys(rp, rlwe.NewSecretKey(rp), sk)
}

// bgvE2SLeaf: EncToShare then ShareToEnc. proto bgv-e2s searches the lattice of the decryption shares
// (re-encryption shares folded in index order), bgv-s2e the converse.
func bgvE2SLeaf(c *engine.Chooser, name string, k cfg) {
	cover(c, k)
	w := newBGVWorld(c, name, k)
	rp, n := w.rp, k.n
	lsh, lout := resolve(k.lsh, k.lin), resolve(k.lout, rp.MaxLevel())
	tot := new(big.Int).Add(mp.XeSup(rp.Xe()), new(big.Int).Mul(big.NewInt(int64(n)), w.sup))
	if !w.inBudget(rp, lsh, tot, n+2) || !w.inBudget(rp, lout, new(big.Int).Mul(big.NewInt(int64(n)), w.sup), n+2) {
		c.Skip("noise budget of the level exceeded")
		return
	}
	inst, hist := axes(c)
	e2s := mp.Instances(inst, n, func() mpbgv.EncToShareProtocol {
		p, err := mpbgv.NewEncToShareProtocol(w.params, w.flood)
		if err != nil {
			panic(fmt.Sprintf("harness: %v", err))
		}
		return p
	}, func(p mpbgv.EncToShareProtocol) mpbgv.EncToShareProtocol { return p.ShallowCopy() })
	s2e := mp.Instances(inst, n, func() mpbgv.ShareToEncProtocol {
		p, err := mpbgv.NewShareToEncProtocol(w.params, w.flood)
		if err != nil {
			panic(fmt.Sprintf("harness: %v", err))
		}
		return p
	}, func(p mpbgv.ShareToEncProtocol) mpbgv.ShareToEncProtocol { return p.ShallowCopy() })
	pub := make([]multiparty.KeySwitchShare, n)
	sec := make([]multiparty.AdditiveShare, n)
	for i := 0; i < n; i++ {
		if hist > 0 { // both objects already served a run at another level / with another key
			lw := warmLevel(hist, k.lin, rp.MaxLevel())
			skw := w.P.SK[i]
			if hist == 3 {
				skw = w.P.SK[(i+1)%n]
			}
			ctw := bgv.NewCiphertext(w.params, 1, lw)
			_ = rlwe.NewEncryptor(rp, w.P.Ideal).EncryptZero(ctw)
			pw, sw := e2s[i].AllocateShare(lw), mpbgv.NewAdditiveShare(w.params)
			e2s[i].GenShare(skw, ctw, &sw, &pw)
			cw := s2e[i].AllocateShare(lw)
			_ = s2e[i].GenShare(skw, s2e[i].SampleCRP(lw, mp.CRS(1)), sw, &cw)
		}
		pub[i] = e2s[i].AllocateShare(lsh)
		sec[i] = mpbgv.NewAdditiveShare(w.params)
		e2s[i].GenShare(w.P.SK[i], w.ct, &sec[i], &pub[i])
		// share = c1*s_i + e - lift(M_i)
		if !shareNoise(c, "C16/bgv-e2s/GenShare", rp, pub[i].Value, w.ct.Value[1], negKey(rp, w.P.SK[i]), w.liftMask(rp, sec[i].Value.Coeffs[0], lsh), w.sup, i) {
			return
		}
	}
	opsE := mp.KSOps(rp, "C16/bgv-e2s", name+"#e2s", lsh, e2s[0].AggregateShares, e2s[0].AllocateShare)
	aggPub, ok := mp.FoldOrMerge(c, opsE, pub, mp.Search{Mode: k.mode, Variants: true}, k.proto == "bgv-e2s")
	if !ok {
		return
	}
	// party 0 turns the aggregate into its additive share; the others keep their masks
	// secretShare = nil (a party without key share): the result is its own and survives a second call on the object
	{
		first := mpbgv.NewAdditiveShare(w.params)
		e2s[0].GetShare(nil, aggPub, w.ct, &first)
		if inst == 0 && hist == 0 {
			if ov := mp.Overlap([]interface{}{"share returned by GetShare(nil, ...)", &first}, []interface{}{"protocol object", &e2s[0], "aggregate", &aggPub}); ov != "" {
				c.Fail("C16/bgv-e2s/GetShare/output-aliases-callee-or-input", "%s", ov)
				return
			}
		}
		ct2 := w.ct.CopyNew()
		rp.RingQ().AtLevel(ct2.Level()).Add(ct2.Value[0], ct2.Value[1], ct2.Value[0])
		second := mpbgv.NewAdditiveShare(w.params)
		e2s[0].GetShare(nil, aggPub, ct2, &second)
		tm := w.params.PlaintextModulus()
		tot := append([]uint64(nil), first.Value.Coeffs[0]...)
		for i := range sec {
			for j := range tot {
				tot[j] = ref.AddMod(tot[j]%tm, sec[i].Value.Coeffs[0][j]%tm, tm)
			}
		}
		if same, why := eqU(tot, w.pT); !same {
			c.Fail("C16/bgv-e2s/GetShare/result-changed-by-a-later-call", "share obtained with secretShare=nil, read after a second GetShare on the same object, plus the masks != message: %s", why)
			return
		}
		c.Cover("consecutive-calls", "bgv-getshare")
	}
	e2s[0].GetShare(&sec[0], aggPub, w.ct, &sec[0])
	t := w.params.PlaintextModulus()
	sum := make([]uint64, len(w.pT))
	for i := range sec {
		for j := range sum {
			sum[j] = ref.AddMod(sum[j], sec[i].Value.Coeffs[0][j]%t, t)
		}
	}
	if same, why := eqU(sum, w.pT); !same {
		c.Fail("C16/bgv-e2s/shares-do-not-sum-to-message", "sum of the %d additive shares != message polynomial mod t: %s", n, why)
		return
	}
	c.Cover("functional", "bgv-e2s-shares-sum")

	crp := s2e[0].SampleCRP(lout, mp.CRS(0))
	c0 := make([]multiparty.KeySwitchShare, n)
	for i := 0; i < n; i++ {
		c0[i] = s2e[i].AllocateShare(lout)
		if err := s2e[i].GenShare(w.P.SK[i], crp, sec[i], &c0[i]); err != nil {
			c.Fail("C16/bgv-s2e/GenShare/error", "%v", err)
			return
		}
		// share = -crp*s_i + e + lift(share_i)
		neg := w.liftMask(rp, sec[i].Value.Coeffs[0], lout)
		for j := range neg {
			neg[j].Neg(neg[j])
		}
		if !shareNoise(c, "C16/bgv-s2e/GenShare", rp, c0[i].Value, crp.Value, w.P.SK[i], neg, w.sup, i) {
			return
		}
	}
	opsS := mp.KSOps(rp, "C16/bgv-s2e", name+"#s2e", lout, s2e[0].AggregateShares, s2e[0].AllocateShare)
	aggC0, ok := mp.FoldOrMerge(c, opsS, c0, mp.Search{Mode: k.mode, Variants: true}, k.proto == "bgv-s2e")
	if !ok {
		return
	}
	c.Outcome(name, opsE.Flat(aggPub).Hash(), opsS.Flat(aggC0).Hash())
	rec := bgv.NewCiphertext(w.params, 1, lout)
	rec.Scale = w.ct.Scale
	if err := s2e[0].GetEncryption(aggC0, crp, rec); err != nil {
		c.Fail("C16/bgv-s2e/GetEncryption/error", "%v", err)
		return
	}
	if rec.Level() != lout {
		c.Fail("C16/bgv-s2e/GetEncryption/wrong-level", "level %d, want %d", rec.Level(), lout)
		return
	}
	if !receiverAxis(c, finalCall{sig: "C16/bgv-s2e/GetEncryption", rp: rp, want: rec, preMeta: true,
		alloc: func(d, l int) *rlwe.Ciphertext { return bgv.NewCiphertext(w.params, d, l) },
		run:   func(o *rlwe.Ciphertext) error { return s2e[0].GetEncryption(aggC0, crp, o) }}, name) {
		return
	}
	if same, why := eqU(w.decryptRingT(rp, rec, w.P.Ideal), w.pT); !same {
		c.Fail("C16/bgv-s2e/reencryption-not-the-message", "%s", why)
		return
	}
	c.Cover("functional", "bgv-s2e-reencrypts")
}

// bgvFunc returns the transform on integer vectors modulo t.
func bgvFunc(name string, t uint64) func([]uint64) {
	switch name {
	case "id":
		return func([]uint64) {}
	case "scale": // slot-wise scaling by distinct constants
		return func(v []uint64) {
			for i := range v {
				v[i] = ref.MulMod(v[i]%t, uint64(i+2)%t, t)
			}
		}
	case "perm": // rotation by 3 positions
		return func(v []uint64) {
			o := append([]uint64(nil), v...)
			for i := range v {
				v[i] = o[(i+3)%len(v)]
			}
		}
	}
	return nil
}

// bgvTransformLeaf: RefreshProtocol (tf = "nil") and MaskedTransformProtocol.
func bgvTransformLeaf(c *engine.Chooser, name string, k cfg) {
	cover(c, k)
	w := newBGVWorld(c, name, k)
	rp, rpo, n := w.rp, w.rpOut, k.n
	lsh, lout := resolve(k.lsh, k.lin), resolve(k.lout, rpo.MaxLevel())
	tot := new(big.Int).Add(mp.XeSup(rp.Xe()), new(big.Int).Mul(big.NewInt(int64(n)), w.sup))
	_, supOut := mp.KSNoise(rpo, w.flood)
	// a scaling transform multiplies nothing in the noise: it acts on values modulo t only
	if !w.inBudget(rp, lsh, tot, n+2) || !w.inBudget(rpo, lout, new(big.Int).Mul(big.NewInt(int64(n)), supOut), n+2) {
		c.Skip("noise budget of the level exceeded")
		return
	}
	t := w.params.PlaintextModulus()
	var tf *mpbgv.MaskedTransformFunc
	if k.tf != "nil" {
		tf = &mpbgv.MaskedTransformFunc{Decode: k.dec, Func: bgvFunc(k.tf, t), Encode: k.enc}
	}
	refresh := k.proto == "bgv-refresh"
	sig := "C16/" + k.proto
	switched := k.outChain != ""
	if switched {
		c.Cover("params-switch", "bgv/"+k.chain.Name+"->"+k.outChain)
	}

	inst, hist := axes(c)
	var rfp []mpbgv.RefreshProtocol
	var mtp []mpbgv.MaskedTransformProtocol
	if refresh {
		rfp = mp.Instances(inst, n, func() mpbgv.RefreshProtocol {
			p, err := mpbgv.NewRefreshProtocol(w.params, w.flood)
			if err != nil {
				panic(fmt.Sprintf("harness: %v", err))
			}
			return p
		}, func(p mpbgv.RefreshProtocol) mpbgv.RefreshProtocol { return p.ShallowCopy() })
		for i := range rfp {
			mtp = append(mtp, rfp[i].MaskedTransformProtocol)
		}
	} else {
		mtp = mp.Instances(inst, n, func() mpbgv.MaskedTransformProtocol {
			p, err := mpbgv.NewMaskedTransformProtocol(w.params, w.pout, w.flood)
			if err != nil {
				panic(fmt.Sprintf("harness: %v", err))
			}
			return p
		}, func(p mpbgv.MaskedTransformProtocol) mpbgv.MaskedTransformProtocol { return p.ShallowCopy() })
	}
	shares := make([]multiparty.RefreshShare, n)
	crp := mtp[0].SampleCRP(lout, mp.CRS(0))
	for i := 0; i < n; i++ {
		if hist > 0 { // the object already produced a share for another ciphertext at another level / with other keys
			lw := warmLevel(hist, k.lin, rp.MaxLevel())
			lwo := warmLevel(hist, lout, rpo.MaxLevel())
			j := i
			if hist == 3 {
				j = (i + 1) % n
			}
			ctw := bgv.NewCiphertext(w.params, 1, lw)
			_ = rlwe.NewEncryptor(rp, w.P.Ideal).EncryptZero(ctw)
			sw := mtp[i].AllocateShare(lw, lwo)
			_ = mtp[i].GenShare(w.P.SK[j], w.POut.SK[j], ctw, mtp[i].SampleCRP(lwo, mp.CRS(1)), nil, &sw)
		}
		shares[i] = mtp[i].AllocateShare(lsh, lout)
		var err error
		if refresh {
			err = rfp[i].GenShare(w.P.SK[i], w.ct, crp, &shares[i])
		} else {
			err = mtp[i].GenShare(w.P.SK[i], w.POut.SK[i], w.ct, crp, tf, &shares[i])
		}
		if err != nil {
			c.Fail(sig+"/GenShare/error", "party %d: %v", i, err)
			return
		}
		// Smudging of both halves of a refresh share. The re-encryption half is -crp*s_out + e' + lift(f(M)): multiplied
		// by t it is f(M) + t*e' with f(M) in [0,t), so e' and f(M) separate exactly; without transform f(M) = M and
		// the decryption half c1*s_in + e - lift(M) gives e.
		x := mp.LinearResidual(rpo, shares[i].ShareToEncShare.Value, crp.Value, true, w.POut.SK[i])
		Qo := uni.QAtLevel(rpo, lout)
		bt := new(big.Int).SetUint64(t)
		M := make([]uint64, len(x))
		e2 := make([]*big.Int, len(x))
		for j := range x {
			v := ref.Center(new(big.Int).Mod(new(big.Int).Mul(x[j], bt), Qo), Qo)
			m := new(big.Int).Mod(v, bt)
			M[j] = m.Uint64()
			e2[j] = new(big.Int).Div(new(big.Int).Sub(v, m), bt)
		}
		if isZero(e2) {
			c.Fail(sig+"/GenShare/no-smudging-noise", "party %d: the re-encryption half of the share carries no error", i)
			return
		}
		if nn := ref.InfNorm(e2); nn.Cmp(supOut) > 0 {
			c.Fail(sig+"/GenShare/noise-above-truncation-bound", "party %d: re-encryption half |e| = %v > %v", i, nn, supOut)
			return
		}
		if tf == nil {
			if !shareNoise(c, sig+"/GenShare", rp, shares[i].EncToShareShare.Value, w.ct.Value[1], negKey(rp, w.P.SK[i]), w.liftMask(rp, M, lsh), w.sup, i) {
				return
			}
			c.Cover("refresh-share-smudging", "both-halves")
		}
	}
	ops := mp.Ops[multiparty.RefreshShare]{
		Sig: sig, Key: name,
		New: func() multiparty.RefreshShare { return mtp[0].AllocateShare(lsh, lout) },
		Agg: func(a, b multiparty.RefreshShare, out *multiparty.RefreshShare) error {
			fresh := out.MetaData.Scale.Value.Sign() == 0 // zero-value metadata: a freshly allocated output
			err := mtp[0].AggregateShares(a, b, out)
			if fresh {
				// isolated in scenario refresh-share-metadata/bgv: a freshly allocated output does not receive the metadata
				out.MetaData = a.MetaData
			}
			return err
		},
		Hop: mp.HopRefresh,
		Used: func(which int) multiparty.RefreshShare {
			return mp.UsedRefresh(rp, rpo, mtp[0].AllocateShare, which, name)
		},
		Into: mp.IntoRefresh,
		Flat: func(a multiparty.RefreshShare) mp.Flat { return mp.FlatRefresh(rp, rpo, a) },
	}
	agg, ok := mp.Merge(c, ops, shares, mp.Search{Mode: k.mode, Variants: true})
	if !ok {
		return
	}
	c.Outcome(name, ops.Flat(agg).Hash())
	if inst == 0 && hist == 0 {
		// a party's refresh share is its own: no memory shared with its protocol object, the ciphertext or the crp
		if ov := mp.Overlap([]interface{}{"e2s half", &shares[0].EncToShareShare, "s2e half", &shares[0].ShareToEncShare}, []interface{}{"protocol object", &mtp[0], "ciphertext", &w.ct.Value, "crp", &crp}); ov != "" && n > 1 {
			c.Fail(sig+"/GenShare/output-aliases-input-or-callee", "%s", ov)
			return
		}
		c.Cover("alias", "outputs-vs-inputs-and-callee")
	}

	// expected plaintext polynomial (the output encoder is the output parameters' one: same t, same degree)
	x := append([]uint64(nil), w.pT...)
	if tf != nil {
		if tf.Decode {
			x = append([]uint64(nil), w.values...)
		}
		tf.Func(x)
		if tf.Encode {
			p := w.pout.RingT().NewPoly()
			if err := bgv.NewEncoder(w.pout).EncodeRingT(x, w.ct.Scale, p); err != nil {
				panic(fmt.Sprintf("harness: %v", err))
			}
			x = append([]uint64(nil), p.Coeffs[0]...)
		}
	}
	run := func(in, out *rlwe.Ciphertext) error {
		if refresh {
			return rfp[0].Finalize(in, crp, agg, out)
		}
		return mtp[0].Transform(in, tf, crp, agg, out)
	}
	// in place (the repository's usage, also across a parameter switch of equal degree) and out of place into a
	// ciphertext of the output parameters carrying the input's metadata
	inpl := w.ct.CopyNew()
	outp := bgv.NewCiphertext(w.pout, 1, lout)
	*outp.MetaData = *w.ct.MetaData
	for i, pair := range [][2]*rlwe.Ciphertext{{inpl, inpl}, {w.ct, outp}} {
		mode := [...]string{"in-place", "out-of-place"}[i]
		if err, pan := uni.Try(func() error { return run(pair[0], pair[1]) }); err != nil || pan != nil {
			c.Fail(sig+"/finalize/fails", "%s: err=%v panic=%v", mode, err, pan)
			return
		}
		res := pair[1]
		if res.Level() != lout {
			c.Fail(sig+"/finalize/wrong-level", "%s: output level %d, requested %d", mode, res.Level(), lout)
			return
		}
		if res.Scale.Cmp(w.ct.Scale) != 0 {
			c.Fail(sig+"/finalize/wrong-scale", "%s: output scale %v, input scale %v", mode, &res.Scale.Value, &w.ct.Scale.Value)
			return
		}
		if same, why := eqU(w.decryptRingT(rpo, res, w.POut.Ideal), x); !same {
			c.Fail(sig+"/finalize/not-f-of-message", "%s (transform %s, decode=%v, encode=%v): %s", mode, k.tf, k.dec, k.enc, why)
			return
		}
	}
	if !receiverAxis(c, finalCall{sig: sig + "/finalize", rp: rpo, want: inpl, checkMeta: true,
		alloc: func(d, l int) *rlwe.Ciphertext { return bgv.NewCiphertext(w.pout, d, l) },
		run:   func(o *rlwe.Ciphertext) error { return run(w.ct, o) }}, name) {
		return
	}
	c.Cover("functional", k.proto)
}
