package main

import (
	"fmt"
	"math/big"

	"github.com/tuneinsight/lattigo/v6/core/rlwe"
	"github.com/tuneinsight/lattigo/v6/multiparty"
	"github.com/tuneinsight/lattigo/v6/ring"

	"verif/engine"
	"verif/lib/mp"
	"verif/ref"
	"verif/uni"
)

// axes takes the two per-leaf axes every protocol shares (non-free choices: each costs one deviation): how the
// parties' protocol objects were obtained (copies of party 0's, all constructed, a chain of copies) and what the
// objects did before the judged run (nothing; a run at level 0; a run at the maximum level; a run with other
// keys / another ciphertext shape at the same level). Results and smudging bounds must not depend on either.
func axes(c *engine.Chooser) (inst, hist int) {
	inst = c.Choose(3, "instances")
	hist = c.Choose(4, "history")
	c.Cover("instances", mp.InstanceNames[inst])
	c.Cover("history", [...]string{"first-use", "after-run-at-level-0", "after-run-at-max-level", "after-run-with-other-keys"}[hist])
	return
}

// warmLevel is the level of the warm-up run of the history axis.
func warmLevel(hist, lvl, max int) int {
	switch hist {
	case 1:
		return 0
	case 2:
		return max
	}
	return lvl
}

// flipDomain moves a ciphertext into the domain the parameters do NOT use by default (coefficient domain under
// NTT-by-default parameters and conversely) and flags it accordingly: the same ciphertext of the same message.
func flipDomain(params rlwe.Parameters, ct *rlwe.Ciphertext) {
	r := params.RingQ().AtLevel(ct.Level())
	for i := range ct.Value {
		if ct.IsNTT {
			r.INTT(ct.Value[i], ct.Value[i])
		} else {
			r.NTT(ct.Value[i], ct.Value[i])
		}
	}
	ct.IsNTT = !ct.IsNTT
}

// coverDomain records the cell of (ciphertext domain) x (parameters' default domain).
func coverDomain(c *engine.Chooser, params rlwe.Parameters, ct *rlwe.Ciphertext) {
	c.Cover("domain", fmt.Sprintf("ct-ntt=%v/params-ntt=%v", ct.IsNTT, params.NTTFlag()))
}

func isZero(v []*big.Int) bool { return ref.InfNorm(v).Sign() == 0 }

// encryptUnder returns a fresh secret-key encryption of a uniform plaintext (noise: one error, sup B).
func encryptUnder(params rlwe.Parameters, sk *rlwe.SecretKey, lvl int, key ...interface{}) (*rlwe.Ciphertext, []*big.Int) {
	pt, want := mp.UniformPlaintext(params, lvl, key...)
	ct := rlwe.NewCiphertext(params, 1, lvl)
	if err := rlwe.NewEncryptor(params, sk).Encrypt(pt, ct); err != nil {
		panic(fmt.Sprintf("harness: %v", err))
	}
	return ct, want
}

// ksLeaf: KeySwitchProtocol to a secret-shared key ("shared") or to the zero key ("decrypt").
func ksLeaf(c *engine.Chooser, name string, k cfg) {
	params := k.chain.RLWE(k.ntt)
	cover(c, k)
	uni.Seed(c, name, "setup")
	In := mp.NewParties(params, k.n)
	var Out *mp.Parties
	if k.proto == "ks-shared" {
		Out = mp.NewParties(params, k.n)
	} else {
		Out = &mp.Parties{Params: params, Ideal: rlwe.NewSecretKey(params)}
		for i := 0; i < k.n; i++ {
			Out.SK = append(Out.SK, rlwe.NewSecretKey(params)) // the zero key
		}
	}
	lvl := k.lin
	ct, want := encryptUnder(params, In.Ideal, lvl, name, "pt")
	if k.ctFlip {
		flipDomain(params, ct)
	}
	coverDomain(c, params, ct)
	flood := mp.Flood(params, k.sigma)
	_, sup := mp.KSNoise(params, flood)

	inst, hist := axes(c)
	protos := mp.Instances(inst, k.n, func() multiparty.KeySwitchProtocol {
		p, err := multiparty.NewKeySwitchProtocol(params, flood)
		if err != nil {
			panic(fmt.Sprintf("harness: %v", err))
		}
		return p
	}, func(p multiparty.KeySwitchProtocol) multiparty.KeySwitchProtocol { return p.ShallowCopy() })
	shares := make([]multiparty.KeySwitchShare, k.n)
	for i := range protos {
		if hist > 0 { // the object already produced a share: same key objects at another level, or other keys
			lw := warmLevel(hist, lvl, params.MaxLevel())
			a, b := In.SK[i], Out.SK[i]
			if hist == 3 {
				a, b = b, a
			}
			ctw, _ := encryptUnder(params, In.Ideal, lw, name, "warm-up", hist)
			if (hist == 2) != k.ctFlip { // hist 2: the warm-up ciphertext is in the other domain than the judged one
				flipDomain(params, ctw)
			}
			sh := protos[i].AllocateShare(lw)
			protos[i].GenShare(a, b, ctw, &sh)
		}
		shares[i] = protos[i].AllocateShare(lvl)
		protos[i].GenShare(In.SK[i], Out.SK[i], ct, &shares[i])
		if i == 0 && inst == 0 && hist == 0 {
			if ov := mp.Overlap([]interface{}{"share", &shares[i]}, []interface{}{"protocol object", &protos[i], "ciphertext", &ct.Value}); ov != "" {
				c.Fail("C16/ks/GenShare/output-aliases-input-or-callee", "%s", ov)
				return
			}
		}
		// smudging: share_i - c1*(s_in,i - s_out,i) is the error of the share
		e := mp.LinearResidual(params, shares[i].Value, ct.Value[1], ct.IsNTT, mp.DiffKeys(params, Out.SK[i], In.SK[i]))
		if isZero(e) {
			c.Fail("C16/ks/GenShare/no-smudging-noise", "party %d: share is exactly c1*(s_in-s_out)", i)
			return
		}
		if n := ref.InfNorm(e); n.Cmp(sup) > 0 {
			c.Fail("C16/ks/GenShare/noise-above-truncation-bound", "party %d: |e| = %v > floor(6*sigma_eff+0.5) = %v", i, n, sup)
			return
		}
	}
	ops := mp.KSOps(params, "C16/ks", name, lvl, protos[0].AggregateShares, protos[0].AllocateShare)
	agg, ok := mp.Merge(c, ops, shares, mp.Search{Mode: k.mode, Variants: true})
	if !ok {
		return
	}
	c.Outcome(name, ops.Flat(agg).Hash())

	// result out of place and in place must agree
	out := rlwe.NewCiphertext(params, 1, lvl)
	protos[0].KeySwitch(ct, agg, out)
	if inst == 0 && hist == 0 {
		if ov := mp.Overlap([]interface{}{"switched ciphertext", &out.Value}, []interface{}{"input ciphertext", &ct.Value, "aggregate", &agg, "protocol object", &protos[0]}); ov != "" {
			c.Fail("C16/ks/KeySwitch/output-aliases-input-or-callee", "%s", ov)
			return
		}
		c.Cover("alias", "outputs-vs-inputs-and-callee")
	}
	inpl := ct.CopyNew()
	protos[0].KeySwitch(inpl, agg, inpl)
	if !out.Equal(inpl) {
		c.Fail("C16/ks/KeySwitch/in-place-differs", "KeySwitch(ct, share, ct) != KeySwitch(ct, share, fresh)")
		return
	}
	if !receiverAxis(c, finalCall{sig: "C16/ks/KeySwitch", rp: params, want: inpl, checkMeta: true,
		alloc: func(d, l int) *rlwe.Ciphertext { return rlwe.NewCiphertext(params, d, l) },
		run:   func(o *rlwe.Ciphertext) error { protos[0].KeySwitch(ct, agg, o); return nil }}, name) {
		return
	}
	if out.Level() != lvl || out.IsNTT != ct.IsNTT {
		c.Fail("C16/ks/KeySwitch/metadata", "output level %d (want %d), IsNTT %v (want %v)", out.Level(), lvl, out.IsNTT, ct.IsNTT)
		return
	}
	// message preserved under the target key: noise <= fresh error + one truncated Gaussian per party
	bound := new(big.Int).Add(mp.XeSup(params.Xe()), new(big.Int).Mul(big.NewInt(int64(k.n)), sup))
	noise := mp.NoiseInf(params, out.El(), Out.Ideal, want)
	c.Note("noise %v <= bound %v", noise, bound)
	if new(big.Int).Lsh(bound, 3).Cmp(uni.QAtLevel(params, lvl)) > 0 {
		c.Skip("noise bound above Q/8 at this level")
		return
	}
	if noise.Cmp(bound) > 0 {
		c.Fail("C16/ks/KeySwitch/message-not-preserved", "|phase under the target key - m| = %v > bound %v", noise, bound)
		return
	}
	c.Cover("functional", k.proto)
}

// pcksLeaf: PublicKeySwitchProtocol to an arbitrary public key.
func pcksLeaf(c *engine.Chooser, name string, k cfg) {
	params := k.chain.RLWE(k.ntt)
	cover(c, k)
	uni.Seed(c, name, "setup")
	In := mp.NewParties(params, k.n)
	skOut, pkOut := rlwe.NewKeyGenerator(params).GenKeyPairNew()
	lvl := k.lin
	ct, want := encryptUnder(params, In.Ideal, lvl, name, "pt")
	if k.ctFlip {
		flipDomain(params, ct)
	}
	coverDomain(c, params, ct)
	flood := mp.Flood(params, k.sigma)
	floodSup := mp.XeSup(flood)
	// per share: an encryption of zero under pkOut (u*e_pk + e0 + e1*s_out, rounding of the division by P when
	// P exists: see C14's bound) plus one flooding error
	N, B := mp.RingFactor(params), mp.XeSup(params.Xe()).Int64()
	encZero := N*B + B + N*B
	if params.PCount() > 0 {
		encZero += int64(params.PCount()+1) * (1 + N)
	}
	perShare := new(big.Int).Add(big.NewInt(encZero), floodSup)

	inst, hist := axes(c)
	protos := mp.Instances(inst, k.n, func() multiparty.PublicKeySwitchProtocol {
		p, err := multiparty.NewPublicKeySwitchProtocol(params, flood)
		if err != nil {
			panic(fmt.Sprintf("harness: %v", err))
		}
		return p
	}, func(p multiparty.PublicKeySwitchProtocol) multiparty.PublicKeySwitchProtocol { return p.ShallowCopy() })
	shares := make([]multiparty.PublicKeySwitchShare, k.n)
	var pkOther *rlwe.PublicKey
	if hist == 3 {
		_, pkOther = rlwe.NewKeyGenerator(params).GenKeyPairNew()
	}
	for i := range protos {
		if hist > 0 { // the object already produced a share at another level / for another public key
			lw := warmLevel(hist, lvl, params.MaxLevel())
			pkw := pkOut
			if hist == 3 {
				pkw = pkOther
			}
			ctw, _ := encryptUnder(params, In.Ideal, lw, name, "warm-up", hist)
			if (hist == 2) != k.ctFlip {
				flipDomain(params, ctw)
			}
			sh := protos[i].AllocateShare(lw)
			protos[i].GenShare(In.SK[i], pkw, ctw, &sh)
		}
		shares[i] = protos[i].AllocateShare(lvl)
		protos[i].GenShare(In.SK[i], pkOut, ct, &shares[i])
		if i == 0 && inst == 0 && hist == 0 {
			if ov := mp.Overlap([]interface{}{"share", &shares[i].Value}, []interface{}{"protocol object", &protos[i], "ciphertext", &ct.Value, "public key", pkOut}); ov != "" {
				c.Fail("C16/pcks/GenShare/output-aliases-input-or-callee", "%s", ov)
				return
			}
		}
		// noise of the share: h0 + h1*s_out - c1*s_i
		h := &rlwe.Element[ring.Poly]{Value: shares[i].Value, MetaData: &rlwe.MetaData{}}
		h.IsNTT = ct.IsNTT
		ph := mp.Phase(params, h, skOut)
		c1s := mp.LinearResidual(params, params.RingQ().AtLevel(lvl).NewPoly(), ct.Value[1], ct.IsNTT, In.SK[i])
		e := uni.SubCentered(ph, c1s, uni.QAtLevel(params, lvl))
		if isZero(e) {
			c.Fail("C16/pcks/GenShare/no-smudging-noise", "party %d", i)
			return
		}
		if n := ref.InfNorm(e); n.Cmp(perShare) > 0 {
			c.Fail("C16/pcks/GenShare/noise-above-truncation-bound", "party %d: |e| = %v > %v", i, n, perShare)
			return
		}
	}
	ops := mp.Ops[multiparty.PublicKeySwitchShare]{
		Sig: "C16/pcks", Key: name,
		New: func() multiparty.PublicKeySwitchShare { return protos[0].AllocateShare(lvl) },
		Agg: protos[0].AggregateShares,
		Hop: func(a multiparty.PublicKeySwitchShare) (r multiparty.PublicKeySwitchShare, err error) {
			var data []byte
			if data, err = a.MarshalBinary(); err != nil {
				return
			}
			err = r.UnmarshalBinary(data)
			return
		},
		Flat: func(a multiparty.PublicKeySwitchShare) mp.Flat {
			f := mp.Flat{Tag: fmt.Sprintf("pcks|lvl=%d", a.Level())}
			f.Rows = mp.RowsQ(f.Rows, params.RingQ(), a.Value[0])
			f.Rows = mp.RowsQ(f.Rows, params.RingQ(), a.Value[1])
			return f
		},
	}
	agg, ok := mp.Merge(c, ops, shares, mp.Search{Mode: k.mode, Variants: true})
	if !ok {
		return
	}
	c.Outcome(name, ops.Flat(agg).Hash())
	out := rlwe.NewCiphertext(params, 1, lvl)
	protos[0].KeySwitch(ct, agg, out)
	if inst == 0 && hist == 0 {
		if ov := mp.Overlap([]interface{}{"switched ciphertext", &out.Value}, []interface{}{"input ciphertext", &ct.Value, "aggregate", &agg.Value, "protocol object", &protos[0]}); ov != "" {
			c.Fail("C16/pcks/KeySwitch/output-aliases-input-or-callee", "%s", ov)
			return
		}
	}
	inpl := ct.CopyNew()
	protos[0].KeySwitch(inpl, agg, inpl)
	if !out.Equal(inpl) {
		c.Fail("C16/pcks/KeySwitch/in-place-differs", "KeySwitch(ct, share, ct) != KeySwitch(ct, share, fresh)")
		return
	}
	if !receiverAxis(c, finalCall{sig: "C16/pcks/KeySwitch", rp: params, want: inpl, checkMeta: true,
		alloc: func(d, l int) *rlwe.Ciphertext { return rlwe.NewCiphertext(params, d, l) },
		run:   func(o *rlwe.Ciphertext) error { protos[0].KeySwitch(ct, agg, o); return nil }}, name) {
		return
	}
	bound := new(big.Int).Add(mp.XeSup(params.Xe()), new(big.Int).Mul(big.NewInt(int64(k.n)), perShare))
	if new(big.Int).Lsh(bound, 3).Cmp(uni.QAtLevel(params, lvl)) > 0 {
		c.Skip("noise bound above Q/8 at this level")
		return
	}
	noise := mp.NoiseInf(params, out.El(), skOut, want)
	c.Note("noise %v <= bound %v", noise, bound)
	if noise.Cmp(bound) > 0 {
		c.Fail("C16/pcks/KeySwitch/message-not-preserved", "|phase under the target secret key - m| = %v > bound %v", noise, bound)
		return
	}
	c.Cover("functional", k.proto)
}
