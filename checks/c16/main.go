// C16 — collective key switching, share conversion and refresh preserve the message.
//
// Same merge-lattice search as C14 (lib/mp.Merge) over the shares of KeySwitchProtocol (to a shared key and
// to the zero key), PublicKeySwitchProtocol, the BGV and CKKS EncToShare/ShareToEnc, Refresh and
// MaskedTransform protocols. One scenario per (protocol, configuration); one leaf per path through the lattice.
package main

import (
	"fmt"
	"sort"
	"time"

	"verif/engine"
	"verif/lib/mp"
)

type cfg struct {
	proto              string // ks-shared | ks-decrypt | pcks | bgv-e2s | bgv-refresh | bgv-transform | ckks-e2s | ckks-refresh | ckks-transform
	chain              mp.Chain
	ntt                bool
	n                  int
	mode               mp.Mode
	bound              int
	lin                int     // input ciphertext level
	lsh                int     // level of the decryption half of the share (<= lin); -1: = lin
	lout               int     // output level (refresh / transform / share-to-enc); -1: max
	sigma              float64 // noise flooding standard deviation; 0 = the parameters' default error distribution
	t                  uint64  // BGV plaintext modulus
	logSlots, logScale int     // CKKS
	inScale            int     // CKKS: log2 of the input ciphertext scale (0: default)
	tf                 string  // transform: nil | id | scale | perm
	dec, enc           bool
	batched            bool   // CKKS: input ciphertext IsBatched
	outChain           string // masked transforms: name of the output parameters' chain ("" = same parameters)
	outVia             string // CKKS: how the switching protocol is obtained: "new" (constructor) | "with" (WithParams)
	lambda             int    // CKKS: security parameter given to GetMinimumLevelForRefresh (0 = 128; -1 = boundary search)
	ctFlip             bool   // RLWE level: the ciphertext is in the domain the parameters do NOT use by default
	scaleKind          string // CKKS input scale: "" a power of two | "nd" 2^k+2^(k-53)-1 | "rescaled" 2^(2k)/(q_max*q_(max-1)) through an actual Rescale
}

// outChains are the output parameter sets of the parameter-switching masked transforms.
// outScale is the log2 default scale of an output parameter set where it differs from the input's.
var outScale = map[string]int{"ck40x": 34}

var outChains = map[string]mp.Chain{
	"mid": mp.ChainMid, "mixed": mp.ChainMixed, "ck40": mp.ChainCK40, "ck40x": mp.ChainCK40x, "ck40n5": mp.ChainCK40N5, "ck25n4": mp.ChainCK25N4,
}

func (k cfg) name() string {
	s := fmt.Sprintf("%s/%s/ntt=%v/N=%d/%s/lin=%d/sigma=%g", k.proto, k.chain.Name, k.ntt, k.n, k.mode, k.lin, k.sigma)
	switch k.proto {
	case "bgv-e2s", "bgv-s2e", "bgv-refresh", "bgv-transform":
		s += fmt.Sprintf("/t=%d/lsh=%d/lout=%d", k.t, k.lsh, k.lout)
	case "ckks-e2s", "ckks-s2e", "ckks-refresh", "ckks-transform":
		s += fmt.Sprintf("/slots=%d/scale=%d/in=%d/lsh=%d/lout=%d", k.logSlots, k.logScale, k.inScale, k.lsh, k.lout)
	}
	if k.proto == "bgv-transform" || k.proto == "ckks-transform" {
		s += fmt.Sprintf("/f=%s/dec=%v/enc=%v/batched=%v", k.tf, k.dec, k.enc, k.batched)
	}
	if k.outChain != "" {
		s += fmt.Sprintf("/out=%s/%s", k.outChain, k.outVia)
	}
	if k.lambda != 0 {
		s += fmt.Sprintf("/lambda=%d", k.lambda)
	}
	if k.scaleKind != "" {
		s += "/sk=" + k.scaleKind
	}
	if k.ctFlip {
		s += "/ct-domain=flipped"
	}
	return s
}

// weight estimates the number of leaves of a configuration.
func weight(k cfg) int {
	w := mp.Histories(k.mode, k.n)
	if k.mode == mp.LeftDeep {
		w = 40 * k.n * k.n
		for b := 1; b < k.bound; b++ {
			w *= 4 * k.n
		}
	} else if k.bound > 0 {
		w *= 8 * k.n
		if k.bound > 1 {
			w *= 4 * k.n
		}
	}
	return w
}

func cover(c *engine.Chooser, k cfg) {
	c.Cover("proto", k.proto)
	c.Cover("chain", k.chain.Name)
	c.Cover("ntt", fmt.Sprint(k.ntt))
	c.Cover("sigma", fmt.Sprint(k.sigma))
	if k.lin == 0 {
		c.Cover("lin", "0")
	} else {
		c.Cover("lin", ">0")
	}
	if k.t != 0 {
		c.Cover("t", fmt.Sprint(k.t))
	}
	if k.tf != "" {
		c.Cover("transform", fmt.Sprintf("%s/dec=%v/enc=%v", k.tf, k.dec, k.enc))
	}
}

func scenarios(tier string) []engine.Scenario {
	out := append(smudgeScenarios(tier), minLevelScenarios()...) // single-leaf scenarios first
	seen := map[string]bool{}
	cat := catalogue(tier)
	// cheapest first: when the internal deadline strikes on a loaded machine, depth is lost, not breadth
	sort.SliceStable(cat, func(i, j int) bool { return weight(cat[i]) < weight(cat[j]) })
	for _, k := range cat {
		k := k
		nm := k.name()
		if seen[nm] {
			continue
		}
		seen[nm] = true
		var fn func(c *engine.Chooser)
		switch k.proto {
		case "ks-shared", "ks-decrypt":
			fn = func(c *engine.Chooser) { ksLeaf(c, nm, k) }
		case "pcks":
			fn = func(c *engine.Chooser) { pcksLeaf(c, nm, k) }
		case "bgv-e2s", "bgv-s2e":
			fn = func(c *engine.Chooser) { bgvE2SLeaf(c, nm, k) }
		case "bgv-refresh", "bgv-transform":
			fn = func(c *engine.Chooser) { bgvTransformLeaf(c, nm, k) }
		case "ckks-e2s", "ckks-s2e":
			fn = func(c *engine.Chooser) { ckksE2SLeaf(c, nm, k) }
		case "ckks-refresh", "ckks-transform":
			fn = func(c *engine.Chooser) { ckksTransformLeaf(c, nm, k) }
		}
		out = append(out, engine.Scenario{Name: nm, Bound: k.bound, Fn: fn})
	}
	return out
}

func main() {
	engine.Main(engine.Check{
		ID:    "C16",
		Level: "model_checking",
		Rule: "One scenario per (protocol, chain, NTT flag, parties N, input level, share level, output level, flooding sigma in {default, 2^10, 2^20}, BGV t in {97, 65537} / CKKS slots, scale, input scale, transform in {nil, identity, slot-wise scaling, permutation} x Decode/Encode flags). " +
			"Inside, the merge lattice of the parties' shares (N<=3 quick, <=4 thorough: every pair at every step = every order and tree shape; N=5..8 left-deep orders within `bound` departures from index order), per merge one of 6 variants (plain, swapped, serialization hop of either operand, output aliasing either operand; <=1 non-plain per history). " +
			"Every transition is compared with the coefficient-wise sum of the member shares; the terminal aggregate is fed to KeySwitch / GetShare / GetEncryption / Finalize / Transform and the result is read with an independent phase computation under the target key. " +
			"Further non-free axes per leaf (sharing the deviation bound): how the parties' protocol objects were obtained (ShallowCopies of party 0's / all constructed / a chain of copies) and what the objects did before the judged run (nothing / a run at level 0 / a run at the maximum level with the same key objects / a run with other keys). " +
			"RLWE-level protocols run in all four cells of (ciphertext domain NTT/coefficient) x (parameters NTTFlag true/false), at every level. Chains include conjugate-invariant rings (RLWE level and CKKS, even and odd log N); masked transforms also switch parameters (BGV: another chain; CKKS: another chain with another default scale, twice and half the ring degree, through the constructor and through WithParams); a high-precision CKKS world (12.. 8 primes, scale 2^90, input scales 2^90, 2^90+2^37-1 and 2^180/(q7*q6) obtained by an actual Rescale); CKKS log-bound settings from security parameters 64/128/160; two chains with no slack at the documented minimum level; boundary scenarios for 3, 5, 6 and 7 parties where the harness searches the security parameter that puts a partial product Q_k less than log2(n) bits above the mask bound 2^logBound (the level a floor(log2 n) would wrongly accept), and a sweep scenario that checks the REPORTED (minLevel, logBound) of GetMinimumLevelForRefresh in exact big-integer arithmetic over lambda 4..200 x 1..8 parties x scales x chains. " +
			"KeySwitch-shaped shares also travel through WriteTo/ReadFrom over fragmenting transports. BGV refresh/transform shares: the error of both halves is isolated per share (the re-encryption half separates into f(M) + t*e exactly). " +
			"Every finalisation call (KeySwitch of both protocols, GetEncryption, Finalize / Transform) is repeated in every leaf with six receiver shapes (fresh at / above / below the result level, degree 2, stale content above / at the level) and must give the in-place result (level, degree, polynomials, metadata) or refuse with an error. Smudge scenarios: one leaf = 4 parties (a constructed object, its ShallowCopy, a copy of the copy, a second constructed object; all reused over the rounds at changing levels) x 8..32 ciphertexts (>= 512 error coefficients), the error of every share isolated as share - c1*(s_in - s_out) (+ the mask).",
		Assumptions: []string{
			"hard noise bounds from the declared truncated Gaussians: per key-switch share floor(6*sqrt(sigma_fresh^2+sigma_flood^2)+0.5); leaves whose worst-case bound leaves the correctness budget (Q/8 at RLWE level, Q/(2t) for BGV, CKKS minimum level below GetMinimumLevelForRefresh) are out of scope",
			"masked transforms are linear maps on the plaintext vector (the protocol adds f(m - sum M_i) and f(M_i)): 'slot-wise affine' is instantiated as slot-wise scaling by distinct constants, and permutations",
			"out-of-place BGV Finalize/Transform: the caller gives the output ciphertext the input's metadata (the method documents no metadata handling); in-place use needs no such step",
			"the smudging lower bound (pooled sigma >= 1/2 requested sigma over >= 512 coefficients) is the statistic prescribed for this property; its failure probability under the declared distribution is < 2^-100",
			"shares containing rlwe.MetaData (PublicKeySwitchShare, RefreshShare) are not sent over fragmenting transports: MetaData.ReadFrom's single Read is a listed C08 finding",
			"protocol objects are used sequentially (sharing of scratch memory between ShallowCopies is C10's subject)",
			"high-precision CKKS world (scale 2^90, also non-dyadic and rescaled scales): expected values are computed with big integers / 256-bit floats; transforms whose expected value needs float64 (Decode without Encode) are left to the 2^25 / 2^40 worlds",
			"the ciphertext-domain axis applies to KeySwitch and PublicKeySwitch; BGV and CKKS ciphertexts are in the NTT domain by construction (the schemes' parameters force NTTFlag=true and their share-conversion protocols document NTT-domain shares)",
			"alias oracle (reflective snapshot, polynomial / big-integer payloads only): an output never shares memory with the protocol object or the inputs; GetShare(nil, ...) is also read after a second call on the same object. rlwe.Scale values are copied by value throughout the library (shared big.Float mantissas) and are not part of this oracle",
			"BGV encoder / CKKS encoder are trusted for message <-> plaintext polynomial (C07); decryption itself is the harness's own phase computation",
		},
		Scenarios:      scenarios,
		QuickBudget:    150 * time.Second,
		ThoroughBudget: 25 * time.Minute,
		Expect:         expect,
	})
}

func expect(tier string) []string {
	e := []string{
		"proto=ks-shared", "proto=ks-decrypt", "proto=pcks", "proto=bgv-e2s", "proto=bgv-s2e", "proto=ckks-s2e", "proto=bgv-refresh", "proto=bgv-transform", "proto=ckks-e2s", "proto=ckks-refresh", "proto=ckks-transform",
		"functional=ks-shared", "functional=ks-decrypt", "functional=pcks", "functional=bgv-e2s-shares-sum", "functional=bgv-s2e-reencrypts", "functional=bgv-refresh", "functional=bgv-transform",
		"functional=ckks-e2s-shares-sum", "functional=ckks-s2e-reencrypts", "functional=ckks-refresh", "functional=ckks-transform",
		"merge-mode=full", "merge-mode=leftdeep", "merge-variant=swap", "merge-variant=hop-first", "merge-variant=alias-second",
		"parties=1", "parties=2", "parties=3", "sigma=0", "sigma=1024", "sigma=1.048576e+06", "t=97", "t=65537", "ntt=true", "ntt=false", "lin=0", "lin=>0",
		"smudge=ks", "smudge=pcks", "smudge=bgv-e2s", "smudge=bgv-s2e", "smudge=ckks-e2s", "smudge=ckks-s2e",
		"transform=id/dec=true/enc=true", "transform=scale/dec=true/enc=true", "transform=perm/dec=true/enc=true", "transform=perm/dec=false/enc=false", "transform=scale/dec=true/enc=false", "transform=scale/dec=false/enc=true",
		"instances=copies-of-party0", "instances=all-constructed", "instances=chain-of-copies",
		"history=first-use", "history=after-run-at-level-0", "history=after-run-at-max-level", "history=after-run-with-other-keys",
		"merge-variant=stream-first-1byte", "merge-variant=stream-second-split5",
		"chain=midci", "chain=mixedci", "chain=ck40ci", "chain=ck25ci", "ckks-ring=conjugate-invariant",
		"params-switch=bgv/mixed->mid", "params-switch=ckks/new/N16->N16", "params-switch=ckks/with/N16->N16", "params-switch=ckks/new/N16->N32", "params-switch=ckks/with/N16->N32",
		"params-switch=ckks/new/N32->N16", "params-switch=ckks/with/N32->N16", "domain=ct-ntt=true/params-ntt=true", "domain=ct-ntt=false/params-ntt=true", "domain=ct-ntt=true/params-ntt=false", "domain=ct-ntt=false/params-ntt=false", "consecutive-calls=ckks-getshare", "consecutive-calls=bgv-getshare", "alias=outputs-vs-inputs-and-callee", "receiver=fresh-at-result-level", "receiver=fresh-above", "receiver=fresh-below", "receiver=degree-2", "receiver=stale-content-above", "receiver=stale-content-at-level", "chain=ckfrac", "ckks-boundary=n3", "ckks-boundary=n5", "ckks-boundary=n6", "ckks-boundary=n7", "minlevel-sweep=checked", "chain=ck90", "ckks-scale=nd", "ckks-scale=rescaled", "ckks-lambda=128", "ckks-lambda=64", "ckks-lambda=160",
		"refresh-share-smudging=both-halves", "parties=4", "parties=5", "parties=8",
		"ckks-flags=rejected", "ckks-minlevel=at-minimum", "ckks-minlevel=no-slack", "ckks-minlevel=below-minimum-rejected-or-correct",
	}
	if tier == "thorough" {
		e = append(e, "parties=6", "parties=7")
	}
	return e
}
