// C09 — operations leave their inputs intact and are insensitive to output aliasing and to
// evaluator / output history.
//
// The method table lives in verif/lib/optable (one hand-written Row per exported method, with the
// doc-comment classification "designated output / documented in place"); this check walks it:
// one scenario per (environment, type, method), one leaf per (operand kind × aliasing pattern ×
// output history × receiver history), every leaf compared with the reference execution of the same
// call on a brand-new receiver with distinct operand copies and a fresh output (driver.go).
package main

import (
	"sort"
	"time"

	"verif/engine"
	ot "verif/lib/optable"
)

func envsFor(t *ot.Target, tier string) []string {
	avail := map[string]bool{}
	for _, n := range ot.EnvNames(tier) {
		avail[n] = true
	}
	var r []string
	for _, n := range t.Envs {
		if avail[n] {
			r = append(r, n)
		}
	}
	return r
}

func scenarios(tier string) []engine.Scenario {
	type item struct {
		sc   engine.Scenario
		cost int
	}
	var items []item
	for _, t := range ot.Targets() {
		for _, en := range envsFor(t, tier) {
			for ri := range t.Rows {
				// rough leaf count: kinds x (1 + output histories) x receiver histories; used only to deal the
				// scenarios over the 16 workers (scenario i goes to worker i mod 16) in decreasing order of cost
				r := &t.Rows[ri]
				c := len(r.Kinds) * len(histories(t, tier, false))
				if r.Out != nil {
					c *= 3 + len(r.Out.Shapes)
				}
				items = append(items, item{methodScenario(en, t, ri, tier), c})
			}
		}
	}
	sort.SliceStable(items, func(i, j int) bool { return items[i].cost > items[j].cost })
	// cheap scenarios first (they are many and cost little: an internal deadline hit by the heavy ones must
	// not starve them), then the heavy ones in decreasing order of cost (balance over the 16 workers)
	cut := len(items) / 3
	var scs []engine.Scenario
	scs = append(scs, completenessScenario())
	for _, it := range items[cut:] {
		scs = append(scs, it.sc)
	}
	for _, it := range items[:cut] {
		scs = append(scs, it.sc)
	}
	return scs
}

// coverage compares the hand-written rows with the exported method set of every target type.
func coverage() map[string]interface{} {
	per := map[string]interface{}{}
	totalCovered, totalMethods := 0, 0
	var unclassified []string
	for _, t := range ot.Targets() {
		if t.Type == nil {
			continue
		}
		var covered, waived, missing []string
		seen := map[string]bool{}
		for i := 0; i < t.Type.NumMethod(); i++ {
			m := t.Type.Method(i).Name
			seen[m] = true
			switch {
			case hasRow(t, m):
				covered = append(covered, m)
			case t.NotTabled[m] != "":
				waived = append(waived, m+": "+t.NotTabled[m])
			case t.DefaultNotTabled != "":
				waived = append(waived, m+": "+t.DefaultNotTabled)
			default:
				missing = append(missing, m)
				unclassified = append(unclassified, t.Name+"."+m)
			}
		}
		var stale []string
		for _, r := range t.Rows {
			if !seen[r.Method] && !r.Func {
				stale = append(stale, r.Method)
			}
		}
		sort.Strings(stale)
		per[t.Name] = map[string]interface{}{"exported_methods": t.Type.NumMethod(), "with_row": len(covered),
			"not_tabled_with_reason": waived, "UNCLASSIFIED": missing, "rows_without_method": stale}
		totalCovered += len(covered)
		totalMethods += t.Type.NumMethod()
	}
	return map[string]interface{}{"method_table": per, "methods_with_row": totalCovered, "exported_methods_of_tabled_types": totalMethods,
		"unclassified_methods": unclassified}
}

// completenessScenario fails when an exported method of a tabled type is neither tabled nor waived with a
// reason (a method added to the library must be classified before the check passes again), or when a
// row names a method that no longer exists.
func completenessScenario() engine.Scenario {
	return engine.Scenario{Name: "method-table/completeness", Bound: -1, Fn: func(c *engine.Chooser) {
		n := 0
		for _, t := range ot.Targets() {
			if t.Type == nil {
				continue
			}
			seen := map[string]bool{}
			for i := 0; i < t.Type.NumMethod(); i++ {
				m := t.Type.Method(i).Name
				seen[m] = true
				n++
				if !hasRow(t, m) && t.NotTabled[m] == "" && t.DefaultNotTabled == "" {
					c.Fail("C09/method-table/unclassified:"+t.Name+"."+m, "exported method %s.%s has no row and no waiver in verif/lib/optable", t.Name, m)
				}
			}
			for _, r := range t.Rows {
				if !seen[r.Method] && !r.Func {
					c.Fail("C09/method-table/stale-row:"+t.Name+"."+r.Method, "row %s.%s names a method that the type does not export", t.Name, r.Method)
				}
			}
		}
		c.Count(n)
		c.Cover("method-table", "complete")
		c.Outcome("method-table", n)
		c.State("method-table", n)
	}}
}

// residueFields lists, per target, the scratch fields the residue fill overwrites (audit trail for the
// "scratch by field name" assumption).
func residueFields(tier string) map[string]interface{} {
	r := map[string]interface{}{}
	for _, t := range ot.Targets() {
		envs := envsFor(t, tier)
		if len(envs) == 0 {
			continue
		}
		paths, words := ot.FillResidue(t.New(ot.GetEnv(envs[0])), ot.FillPattern)
		sort.Strings(paths)
		r[t.Name] = map[string]interface{}{"env": envs[0], "fields": paths, "words": words}
	}
	return r
}

func hasRow(t *ot.Target, m string) bool {
	for _, r := range t.Rows {
		if r.Method == m {
			return true
		}
	}
	return false
}

func main() {
	engine.Main(engine.Check{
		ID:    "C09",
		Level: "model_checking",
		Rule: "One scenario per (environment, receiver type, exported method) of the hand-classified method table (verif/lib/optable). " +
			"A leaf is one call under one (operand kind × aliasing pattern {fresh, out==op_i, op_i==op_j, all equal — those the dynamic types permit} × " +
			"output history {fresh exact, larger degree, larger level, same shape holding another result, smaller level (allocated larger, filled, shrunk in place: spare capacity holds old rows), smaller degree shrunk in place the same way} × receiver history " +
			"{new, scratch buffers filled with 2^64-1, scratch buffers filled with a valid-looking pattern, after each other method of the table (quick: its first operand kind; thorough: every kind)}); " +
			"full product; thorough adds every ordered pair of previous methods for every aliasing pattern (not combined with the output histories); receivers obtained by ShallowCopy of a new / of a used receiver are further histories. Each leaf also runs the reference execution (new receiver, distinct identical operand copies, fresh zeroed output) under the same PRNG seed. " +
			"Oracles: (a) identity snapshot (all words, metadata, big-number words, slice headers) of every argument except the designated output equal before/after; " +
			"(b,c) canonical result bytes equal to the reference, or an error for aliased / unsuitable-output calls. " +
			"A state is (scenario, kind, alias, output history, receiver history); distinct_nontrivial counts distinct (scenario, kind, result) classes.",
		Assumptions: []string{
			"operands are well-formed for the scheme (metadata flags as produced by the constructors, scales units mod t for BGV); content is arbitrary (pseudo-random residues): the operations are algebraic in the residues",
			"which struct fields are scratch memory is decided by field name (buf*/tmp*/pool*, ckks Encoder.bigintCoeffs); rings, parameters, keys, samplers and PRNGs are never overwritten",
			"a ciphertext result is compared as the polynomial it denotes: trailing all-zero components are ignored, memory beyond the result's degree/level is not part of the result",
			"aliasing = the same object: the output itself or its .El() (the embedded element) passed as an operand; a second header on the same polynomials (c := *ct; &c) or the ct.Plaintext() view is a different object sharing memory: such calls are executed and their divergences counted (bucket memory-alias-through-distinct-header) but not judged",
			"an error is an admissible answer to an aliased call or to an output object of unsuitable shape; it is not admissible as an effect of receiver history",
			"receivers owning a PRNG (encryptor, key generator, protocols) are compared under identical seeds and only with residue histories (previous calls legitimately advance the PRNG)",
			"doc-comment classification (designated output, documented in-place arguments) is transcribed by hand in the table (trusted base)",
		},
		Scenarios:      scenarios,
		QuickBudget:    140 * time.Second,
		ThoroughBudget: 25 * time.Minute,
		Expect: func(tier string) []string {
			e := []string{"method-table=complete", "alias=fresh", "alias=out==in", "alias=in==in", "alias=all-equal",
				"outshape=exact", "outshape=dirty-words", "outshape=dirty-meta", "outshape=larger-degree", "outshape=larger-level", "outshape=smaller-level", "outshape=shrunk-degree",
				"history=new", "history=residue", "history=after-call", "history=shallow-copy"}
			for _, t := range ot.Targets() {
				if len(envsFor(t, tier)) == 0 {
					continue
				}
				e = append(e, "target="+t.Name)
				if !t.NoScratch {
					e = append(e, "residue-filled="+t.Name)
				}
				for _, r := range t.Rows {
					e = append(e, "ok="+t.Name+"."+r.Method, "nonzero-result="+t.Name+"."+r.Method)
				}
			}
			return e
		},
		Extra: func(tier string) map[string]interface{} {
			m := coverage()
			m["residue_fill_fields"] = residueFields(tier)
			return m
		},
	})
}
