package main

import (
	"github.com/tuneinsight/lattigo/v6/core/rlwe"

	"bytes"
	"fmt"
	"os"
	"reflect"
	"sort"
	"strings"
	"sync"

	"verif/engine"
	ot "verif/lib/optable"
	"verif/uni"
)

// One leaf = one call of one method under one (operand kind, aliasing pattern, output history,
// receiver history), compared with the reference execution of the same call: brand-new receiver,
// identical but distinct operand copies, freshly allocated zeroed output of exactly the result shape.

// history of the receiver before the measured call
type history struct {
	name  string
	fill  int       // 0: none, 1: FillOnes, 2: FillPattern
	calls []priorOp // previous calls on the same receiver
	// copied: the receiver of the measured call is parent.ShallowCopy(), where parent is a receiver with the
	// history above ("read-only data shared, buffers reallocated": the copy must behave like a new receiver)
	copied bool
}

type priorOp struct{ row, kind int }

// histories enumerates the receiver histories for a target. quick: new, two residue fills, after
// each method of the table (its first operand kind). thorough: after each (method, kind), and — for
// calls with a fresh exact or aliased output — after every ordered pair of methods (first kinds).
func histories(t *ot.Target, tier string, plain bool) []history {
	hs := []history{{name: "new"}, {name: "residue:ones", fill: 1}, {name: "residue:pattern", fill: 2}}
	if t.Randomized {
		return hs
	}
	if len(t.Rows) > 0 && hasShallowCopy(t) {
		// (receivers owning a PRNG are excluded: the copy draws a new PRNG, its stream is not the reference's)
		hs = append(hs, history{name: "shallowcopy:of-new", copied: true},
			history{name: "shallowcopy:of-used", copied: true, fill: 2, calls: []priorOp{{0, 0}}})
	}
	for i, r := range t.Rows {
		nk := 1
		if tier == "thorough" {
			nk = len(r.Kinds)
		}
		for k := 0; k < len(r.Kinds); k++ {
			// quick: the first kind, plus (for methods with a designated output; the ...New wrappers run the
			// same code) the kinds flagged as characteristic history
			if k < nk || (r.Kinds[k].History && r.Out != nil) {
				hs = append(hs, history{name: "after:" + r.Method + "/" + r.Kinds[k].Name, calls: []priorOp{{i, k}}})
			}
		}
	}
	if tier == "thorough" && plain {
		for i, r := range t.Rows {
			for j, s := range t.Rows {
				hs = append(hs, history{name: "after:" + r.Method + "," + s.Method, calls: []priorOp{{i, 0}, {j, 0}}})
			}
		}
	}
	return hs
}

// hasShallowCopy reports whether the receivers of t have a ShallowCopy() method returning one value.
func hasShallowCopy(t *ot.Target) bool {
	if t.Type == nil {
		return false
	}
	m, ok := t.Type.MethodByName("ShallowCopy")
	// (a ShallowCopy promoted from an embedded type returns that type, not the receiver's: not a copy of the receiver)
	return ok && m.Type.NumIn() == 1 && m.Type.NumOut() == 1 && m.Type.Out(0) == t.Type
}

func shallowCopy(rcv interface{}) interface{} {
	return reflect.ValueOf(rcv).MethodByName("ShallowCopy").Call(nil)[0].Interface()
}

func histClass(h history) string {
	switch {
	case h.copied:
		return "shallow-copy"
	case h.fill != 0:
		return "residue"
	case len(h.calls) == 1:
		return "after-call"
	case len(h.calls) > 1:
		return "after-calls"
	}
	return "new"
}

// per-process cap of failing leaves per signature: one defect fails in every (pattern, shape, history)
// combination of its (method, kind); reporting a handful of leaves per signature keeps the engine's
// per-worker violation list free for other signatures. The decision is a pure function of the
// enumeration order, and a capped leaf is still counted (coverage bucket "capped-repeat").
var (
	sigMu    sync.Mutex
	sigLeafs = map[string]map[string]bool{}
)

const sigCap = 2

// dryRun (C09_DRYRUN=1): enumerate the choice tree without executing any call — used to size the tiers.
var dryRun = os.Getenv("C09_DRYRUN") == "1"

func report(c *engine.Chooser, leafKey, sig, format string, args ...interface{}) {
	sig = canonicalSig(sig)
	sigMu.Lock()
	m := sigLeafs[sig]
	if m == nil {
		m = map[string]bool{}
		sigLeafs[sig] = m
	}
	ok := m[leafKey] || len(m) < sigCap
	if ok {
		m[leafKey] = true
	}
	sigMu.Unlock()
	if ok {
		c.Fail(sig, format, args...)
	} else {
		c.Cover("capped-repeat", sig)
	}
}

func isNilAny(x interface{}) bool {
	if x == nil {
		return true
	}
	v := reflect.ValueOf(x)
	switch v.Kind() {
	case reflect.Ptr, reflect.Map, reflect.Slice, reflect.Interface:
		return v.IsNil()
	}
	return false
}

func runPrior(t *ot.Target, e *ot.Env, rcv interface{}, p priorOp) {
	r := &t.Rows[p.row]
	k := &r.Kinds[p.kind]
	in := k.Make(e, ot.NewGen("prior", t.Name, r.Method, k.Name))
	var out interface{}
	if r.Out != nil {
		out = r.Out.MakeOut(e, in, ot.ShapeExact)
	}
	_, _ = uni.Try(func() error { _, err := r.Call(rcv, in, out); return err })
}

// call is the context of one (scenario, operand kind).
type call struct {
	c        *engine.Chooser
	e        *ot.Env
	t        *ot.Target
	row      *ot.Row
	kind     *ot.Kind
	name     string
	refs     map[string]*obs
	protoOut interface{}
}

// obs is what one execution showed.
type obs struct {
	skip     string // the configuration does not exist
	modified string // path of the first changed word of a watched argument ("" = intact)
	err      error
	pnc      interface{}
	parts    []ot.Part
	res      interface{}
}

func (k *call) gen() *ot.Gen { return ot.NewGen("op", k.t.Name, k.row.Method, k.kind.Name) }

// reference: brand-new receiver, distinct operand copies, fresh zeroed output (at one level less for
// the smaller-level output history; a distinct copy of the aliased operand for accumulators).
func (k *call) reference(pat ot.Pattern, sh ot.Shape) *obs {
	key := fmt.Sprint(pat.Rep, "|", pat.Same, "|", sh == ot.ShapeSmallerLevel, sh == ot.ShapeSmallerDegree, "|", k.row.Out != nil && k.row.Out.Accumulates && pat.OutIs >= 0, pat.OutIs)
	if o, ok := k.refs[key]; ok {
		return o
	}
	o := &obs{}
	k.refs[key] = o
	row, e := k.row, k.e
	// operands and output first, then the seed: constructors used to build operands may themselves draw
	// PRNGs, and the receiver must see the same PRNG stream in the reference and in the measured execution
	in := k.kind.Make(e, k.gen())
	if pat.Same != nil { // "op0==op1" is compared with two identical but distinct copies
		in[pat.Same[1]] = k.kind.Make(e, k.gen())[pat.Same[0]]
	}
	if pat.Rep != "" && pat.OutIs >= 0 { // the same representation of the operand, but distinct from the output
		in[pat.OutIs] = ot.ApplyRep(pat.Rep, in[pat.OutIs].(*rlwe.Ciphertext))
	}
	var out interface{}
	if row.Out != nil {
		switch {
		case row.Out.Accumulates && pat.OutIs >= 0:
			out = k.kind.Make(e, k.gen())[pat.OutIs] // accumulator = a distinct copy of that operand
		case sh == ot.ShapeSmallerLevel:
			out = row.Out.New(e, in, 0, -1)
		case sh == ot.ShapeSmallerDegree:
			out = row.Out.New(e, in, -1, 0)
		default:
			out = row.Out.New(e, in, 0, 0)
		}
		if isNilAny(out) {
			o.skip = "output shape does not exist for this operand kind"
			return o
		}
	}
	uni.Seed(k.c, k.name, k.kind.Name)
	rcv := k.t.New(e)
	o.err, o.pnc = uni.Try(func() (err error) { o.res, err = row.Call(rcv, in, out); return })
	if o.err == nil && o.pnc == nil {
		o.parts = ot.Parts(o.res)
	}
	return o
}

// measure runs the call under the given deviations.
func (k *call) measure(pat ot.Pattern, sh ot.Shape, h history) *obs {
	o := &obs{}
	row, e, t := k.row, k.e, k.t
	in := k.kind.Make(e, k.gen())
	if pat.Same != nil {
		in[pat.Same[1]] = in[pat.Same[0]]
	}
	var out interface{}
	if row.Out != nil {
		if pat.OutIs >= 0 {
			out = in[pat.OutIs]
			if ot.PtrAlias(in[pat.OutIs], k.protoOut) { // f(a, b, &a): shares passed by value, output by pointer
				out, in[pat.OutIs] = ot.AddrOf(in[pat.OutIs])
				if pat.Same != nil {
					in[pat.Same[1]] = in[pat.OutIs]
				}
			}
			if pat.Rep != "" { // the operand is another representation of the output's memory
				in[pat.OutIs] = ot.ApplyRep(pat.Rep, out.(*rlwe.Ciphertext))
			}
		} else {
			out = row.Out.MakeOut(e, in, sh)
			if isNilAny(out) {
				o.skip = "output shape does not exist for this operand kind"
				return o
			}
		}
	}
	uni.Seed(k.c, k.name, k.kind.Name)
	rcv := t.New(e)
	for _, p := range h.calls {
		runPrior(t, e, rcv, p)
	}
	if h.fill != 0 {
		if _, n := ot.FillResidue(rcv, ot.FillMode(h.fill-1)); n > 0 {
			k.c.Cover("residue-filled", t.Name)
		}
	}
	if h.copied {
		rcv = shallowCopy(rcv)
	}
	// inputs that must stay intact: every argument that is not the designated output and not
	// documented as modified in place; plus (new receiver only) the keys the receiver was built from
	var watched []interface{}
	var wnames []string
	for i, a := range in {
		if i == pat.OutIs || (pat.Same != nil && pat.OutIs >= 0 && i == pat.Same[1]) || inInts(row.InPlace, i) {
			continue
		}
		watched = append(watched, a)
		wnames = append(wnames, argName(k.kind, i))
	}
	if t.Shared != nil && h.name == "new" {
		for i, s := range t.Shared(e) {
			watched = append(watched, s)
			wnames = append(wnames, fmt.Sprintf("receiver-key%d", i))
		}
	}
	before := ot.Bytes(true, watched...)
	o.err, o.pnc = uni.Try(func() (err error) { o.res, err = row.Call(rcv, in, out); return })
	after := ot.Bytes(true, watched...)
	if d := ot.FirstDiff(before, after); d >= 0 {
		o.modified = ot.Locate(true, d, wnames, watched...)
	}
	if o.err == nil && o.pnc == nil {
		o.parts = ot.Parts(o.res)
	}
	return o
}

// failures compares an observation with its reference and returns the failing aspects:
// "input-modified:<arg>", "panic", "error", "result:<part>".
func failures(o, ref *obs, pureHistory bool) []string {
	var f []string
	if o.modified != "" {
		f = append(f, "input-modified:"+argOf(o.modified))
	}
	switch {
	case o.pnc != nil:
		f = append(f, "panic")
	case o.err != nil:
		// an error is an admissible answer to an aliased call or to an unsuitable output object; it is
		// not admissible as a consequence of what the receiver did before
		if pureHistory {
			f = append(f, "error")
		}
	default:
		for i, p := range o.parts {
			if i >= len(ref.parts) || p.Name != ref.parts[i].Name || !bytes.Equal(p.B, ref.parts[i].B) {
				f = append(f, "result:"+p.Name)
			}
		}
	}
	return f
}

func hasStr(s []string, x string) bool {
	for _, v := range s {
		if v == x {
			return true
		}
	}
	return false
}

// deviation set of a leaf
type dev struct {
	pat ot.Pattern
	sh  ot.Shape
	h   history
}

func (d dev) names() []string {
	var n []string
	if d.pat.Name != "fresh" {
		n = append(n, "alias:"+d.pat.Name)
	}
	if d.sh != ot.ShapeExact {
		n = append(n, "out-history:"+d.sh.String())
	}
	if d.h.name != "new" {
		n = append(n, "eval-history:"+histClass(d.h))
	}
	if len(n) == 0 {
		return []string{"plain"}
	}
	return n
}

// weaker enumerates the deviation sets strictly contained in d, smallest first.
func (d dev) weaker(pats []ot.Pattern, allowed []ot.Shape) []dev {
	fresh := pats[0]
	type opt struct {
		pats []ot.Pattern
		shs  []ot.Shape
		hs   []history
	}
	o := opt{pats: []ot.Pattern{fresh}, shs: []ot.Shape{ot.ShapeExact}, hs: []history{{name: "new"}}}
	if d.pat.OutIs >= 0 && d.pat.Same != nil { // all equal: contains out==op_i and op_i==op_j
		for _, p := range pats {
			if (p.OutIs == d.pat.OutIs && p.Same == nil) || (p.OutIs < 0 && p.Same != nil && *p.Same == *d.pat.Same) {
				o.pats = append(o.pats, p)
			}
		}
	}
	if d.pat.Name != "fresh" {
		o.pats = append(o.pats, d.pat)
	}
	if d.sh != ot.ShapeExact {
		for _, w := range d.sh.Weaker() { // only output histories the row admits (an accumulator's words are an input)
			for _, a := range allowed {
				if a == w {
					o.shs = append(o.shs, w)
				}
			}
		}
		o.shs = append(o.shs, d.sh)
	}
	if d.h.name != "new" {
		o.hs = append(o.hs, d.h)
	}
	var r []dev
	for _, p := range o.pats {
		for _, s := range o.shs {
			if p.OutIs >= 0 && s != ot.ShapeExact {
				continue
			}
			for _, h := range o.hs {
				x := dev{p, s, h}
				if x.pat.Name == d.pat.Name && x.sh == d.sh && x.h.name == d.h.name {
					continue
				}
				r = append(r, x)
			}
		}
	}
	sort.SliceStable(r, func(i, j int) bool { return r[i].weight() < r[j].weight() })
	return r
}

func (d dev) weight() int {
	w := 0
	if d.pat.Name != "fresh" {
		w += 10
		if d.pat.OutIs >= 0 && d.pat.Same != nil {
			w += 5
		}
	}
	switch d.sh {
	case ot.ShapeExact:
	case ot.ShapeDirtyWords, ot.ShapeDirtyMeta:
		w += 10
	default:
		w += 11
	}
	if d.h.name != "new" {
		w += 10
	}
	return w
}

// methodScenario is the scenario of one (environment, target, method).
func methodScenario(envName string, t *ot.Target, ri int, tier string) engine.Scenario {
	row := &t.Rows[ri]
	name := envName + "/" + t.Name + "." + row.Method
	histsPlain, histsOther := histories(t, tier, true), histories(t, tier, false)
	base := "C09/" + t.Name + "." + row.Method + "/"
	return engine.Scenario{Name: name, Bound: -1, Fn: func(c *engine.Chooser) {
		e := ot.GetEnv(envName)
		ki := c.ChooseFree(len(row.Kinds), "kind")
		kind := &row.Kinds[ki]
		k := &call{c: c, e: e, t: t, row: row, kind: kind, name: name, refs: map[string]*obs{}}
		class := kind.Class
		if kind.ClassOf != nil {
			class = kind.ClassOf(e)
		}
		if class == "" {
			class = kind.Name
		}
		sig := func(what string) string { return base + class + "/" + what }

		// prototypes, to know which aliasing patterns the dynamic types permit
		proto := kind.Make(e, k.gen())
		var protoOut interface{}
		if row.Out != nil {
			protoOut = row.Out.MakeOut(e, proto, ot.ShapeExact)
		}
		k.protoOut = protoOut
		pats := ot.Patterns(row, proto, protoOut, kind.Names)
		pat := pats[c.Choose(len(pats), "alias")]
		shapes := []ot.Shape{ot.ShapeExact}
		if row.Out != nil && pat.OutIs < 0 && !kind.Light { // (accumulators only list the histories that keep their content: shrunk-degree)
			shapes = append(shapes, row.Out.Shapes...)
		}
		sh := shapes[c.Choose(len(shapes), "outshape")]
		// ordered pairs of previous calls (thorough) are combined with every aliasing pattern (exact output),
		// not with the output histories
		hists := histsOther
		if sh == ot.ShapeExact {
			hists = histsPlain
		}
		if pat.Rep != "" || kind.Light {
			hists = hists[:3] // aliasing through another representation: new receiver and the two residue fills only
		}
		h := hists[c.Choose(len(hists), "history")]
		if dryRun {
			c.Skip("dry run (C09_DRYRUN=1): leaves are only counted")
			return
		}
		d := dev{pat, sh, h}
		leafKey := fmt.Sprint(name, "|", kind.Name, "|", pat.Name, "|", sh, "|", h.name)
		c.Cover("target", t.Name)
		c.Cover("alias", patClass(pat))
		c.Cover("outshape", sh.String())
		c.Cover("history", histClass(h))

		ref := k.reference(pat, sh)
		if ref.skip != "" {
			c.Skip(ref.skip)
			return
		}
		if ref.pnc != nil {
			// the plain call itself panics for this operand kind: not a C09 question (nothing to compare
			// with); counted and listed in the evidence, see FINDINGS.md "side observations"
			c.Cover("plain-call-panics", t.Name+"."+row.Method+"/"+kind.Name)
			c.Note("plain call panics: %v", ref.pnc)
			c.Skip("plain call (new receiver, fresh output) panics for this operand kind")
			return
		}
		if ref.err != nil {
			c.Cover("ref-rejected", t.Name+"."+row.Method+"/"+kind.Name)
			c.Skip("operand kind rejected by the method (error)")
			return
		}
		c.Cover("ok", t.Name+"."+row.Method)
		if nonZero(ref.parts) {
			// vacuity guard: a row whose reference result is identically zero compares zeros with zeros
			c.Cover("nonzero-result", t.Name+"."+row.Method)
		}

		o := k.measure(pat, sh, h)
		if o.skip != "" {
			c.Skip(o.skip)
			return
		}
		c.Count(2)
		c.State(name, kind.Name, pat.Name, sh.String(), h.name)
		switch {
		case o.pnc != nil:
			c.Outcome(name, kind.Name, "panic")
		case o.err != nil:
			c.Outcome(name, kind.Name, "error")
			c.Cover("rejected", strings.Join(d.names(), "+"))
		default:
			var hs []interface{}
			hs = append(hs, name, kind.Name)
			for _, p := range o.parts {
				hs = append(hs, p.B)
			}
			c.Outcome(hs...)
		}
		pure := func(x dev) bool { return x.pat.Name == "fresh" && x.sh == ot.ShapeExact }
		fails := failures(o, ref, pure(d))
		if pat.Rep == "header" || pat.Rep == "ptview" {
			// A second header (c := *ct; &c) or the ct.Plaintext() view is a *different object* that shares the
			// polynomials of the output. The statement speaks of "an output that is the same object as one of its
			// inputs" and the library's aliasing contract is element identity (op.El() == opOut.El()), which such a
			// header defeats by construction: a divergence here is recorded (coverage bucket), not judged.
			// (.El() of the output IS the same object and is judged like the output itself.)
			kept := fails[:0]
			for _, f := range fails {
				if strings.HasPrefix(f, "input-modified") {
					kept = append(kept, f)
				} else {
					c.Cover("memory-alias-through-distinct-header(not judged)", t.Name+"."+row.Method+"/"+pat.Name)
				}
			}
			fails = kept
		}
		if len(fails) == 0 {
			return
		}
		// attribute every failing aspect to the smallest deviation set that reproduces it
		weaker := d.weaker(pats, shapes)
		cache := map[int][]string{}
		for _, f := range fails {
			blame := d
			for wi, w := range weaker {
				fw, ok := cache[wi]
				if !ok {
					rw := k.reference(w.pat, w.sh)
					if rw.skip == "" && rw.err == nil && rw.pnc == nil {
						if ow := k.measure(w.pat, w.sh, w.h); ow.skip == "" {
							fw = failures(ow, rw, pure(w))
						}
					}
					cache[wi] = fw
				}
				if hasStr(fw, f) {
					blame = w
					break
				}
			}
			what := f + ":" + strings.Join(blame.names(), "+")
			detail := ""
			switch {
			case strings.HasPrefix(f, "input-modified"):
				detail = "argument changed by the call, first difference at " + o.modified
			case f == "panic":
				detail = fmt.Sprintf("panic: %v (the reference call succeeds)", o.pnc)
			case f == "error":
				detail = fmt.Sprintf("call fails (%v) although the same call on a new receiver succeeds", o.err)
			default:
				detail = "result differs from the reference (new receiver, distinct operand copies, fresh output): " + describeDiff(ref.res, o.res)
			}
			report(c, leafKey, sig(what), "[%s] %s [leaf: alias=%s outshape=%s history=%s; smallest reproducing deviation: %s]",
				kind.Name, detail, pat.Name, sh, h.name, strings.Join(blame.names(), "+"))
		}
	}}
}

func inInts(s []int, x int) bool {
	for _, v := range s {
		if v == x {
			return true
		}
	}
	return false
}

func argName(k *ot.Kind, i int) string {
	if i < len(k.Names) {
		return k.Names[i]
	}
	return fmt.Sprintf("arg%d", i)
}

// argOf extracts the argument name (up to the first path separator) of a located path.
func argOf(path string) string {
	for i, ch := range path {
		if ch == '.' || ch == '[' || ch == '-' {
			return path[:i]
		}
	}
	return path
}

func patClass(p ot.Pattern) string {
	switch {
	case p.OutIs >= 0 && p.Same != nil:
		return "all-equal"
	case p.OutIs >= 0:
		return "out==in"
	case p.Same != nil:
		return "in==in"
	}
	return "fresh"
}

// describeDiff says where two results differ (value snapshots; first differing path).
func describeDiff(ref, got interface{}) string {
	a, b := ot.Bytes(false, ref), ot.Bytes(false, got)
	d := ot.FirstDiff(a, b)
	if d < 0 {
		return "(same raw value)"
	}
	return "first difference at " + ot.Locate(false, d, []string{"result"}, got)
}

// nonZero reports whether the "value" part of a result contains a non-zero byte.
func nonZero(parts []ot.Part) bool {
	for _, p := range parts {
		if p.Name != "value" {
			continue
		}
		for _, b := range p.B {
			if b != 0 && b != 0xEE && b != 0xEF {
				return true
			}
		}
	}
	return false
}
