package main

// canonicalSig maps the generic signature of a leaf to the signature of the triaged defect it belongs
// to (FINDINGS.md); unknown signatures are returned unchanged.
func canonicalSig(sig string) string { return sig }
