package main

import "regexp"

// canonicalSig maps the generic signature of a leaf
//
//	C09/<Type.Method>/<operand class>/<aspect>:<smallest reproducing deviation>
//
// to the signature of the triaged defect it is a symptom of (FINDINGS.md): one defect shows up
// under several wrapper methods (AddNew -> Add), operand classes (int, int64, uint64 all go through the
// *big.Int path) and deviations (an output scale that is never written is visible both as "depends on
// the previous metadata of the output" and as "out==op0 differs from a fresh output"). Unknown
// signatures are returned unchanged, so anything that is not one of the triaged defects stays visible
// under its generic name.
func canonicalSig(sig string) string {
	for _, r := range sigRules {
		if r.re.MatchString(sig) {
			return r.re.ReplaceAllString(sig, r.to)
		}
	}
	return sig
}

type sigRule struct {
	re *regexp.Regexp
	to string
}

func rule(re, to string) sigRule { return sigRule{regexp.MustCompile("^C09/" + re + "$"), "C09/" + to} }

const (
	bgvMulFamily = `(?:Mul|MulNew|MulRelin|MulRelinNew|MulScaleInvariant|MulScaleInvariantNew|MulRelinScaleInvariant|MulRelinScaleInvariantNew)`
	bgvScalar    = `(?:bigint|int|int64|uint64)`
	ckksScalar   = `(?:complex128|float64|int|int64|uint|uint64|bigint|bigfloat|bigcomplex)`
	scaleSymptom = `result:meta:Scale:(?:alias:out==op0|out-history:dirty-meta)`
)

var sigRules = []sigRule{
	// F01 bgv: *big.Int operand normalised in place
	rule(`bgv\.Evaluator\.(?:Add|AddNew)/bigint/input-modified:op1:.*`, `bgv.Evaluator.Add/bigint/operand-normalised-in-place`),
	rule(`bgv\.Evaluator\.`+bgvMulFamily+`/bigint/input-modified:op1:.*`, `bgv.Evaluator.Mul/bigint/operand-normalised-in-place`),
	rule(`bgv\.Evaluator\.(?:MulThenAdd|MulRelinThenAdd)/bigint/input-modified:op1:.*`, `bgv.Evaluator.MulThenAdd/bigint/operand-normalised-in-place`),
	// F02 bgv: scalar operand, scale of a distinct output never written
	rule(`bgv\.Evaluator\.(?:Add|Sub)/`+bgvScalar+`/`+scaleSymptom, `bgv.Evaluator.Add/scalar/output-scale-not-set`),
	rule(`bgv\.Evaluator\.`+bgvMulFamily+`/`+bgvScalar+`/`+scaleSymptom, `bgv.Evaluator.Mul/scalar/output-scale-not-set`),
	// F03 bgv: equal-scale Add/Sub leave the components above the operands' degree of a larger output untouched
	rule(`bgv\.Evaluator\.(Add|Sub)/(?:ct-ct|ct-ct/degree|ct-pt)/result:value:out-history:larger-degree`, `bgv.Evaluator.$1/element/larger-degree-output-keeps-old-component`),
	rule(`bgv\.Evaluator\.(Add|Sub)/ct-ct/scale/result:value:alias:op0==op1\+out-history:larger-degree`, `bgv.Evaluator.$1/element/larger-degree-output-keeps-old-component`),
	// F04 bgv: scale matching writes the output before reading op1
	rule(`bgv\.Evaluator\.(Add|Sub)/ct-ct/scale/result:value:alias:out==op1`, `bgv.Evaluator.$1/ct-ct/scale/out==op1-wrong-value`),
	// F05 bgv: Rescale indexes op0.Value over the output's degree
	rule(`bgv\.Evaluator\.Rescale/ct/panic:out-history:larger-degree`, `bgv.Evaluator.Rescale/ct/larger-degree-output-panics`),
	// F06 bfv tensoring: scale computed from the swapped operands
	rule(`bgv\.Evaluator\.`+bgvMulFamily+`/ct-ct/scale/result:meta:Scale:alias:out==op1`, `bgv.Evaluator.MulScaleInvariant/ct-ct/scale/out==op1-wrong-scale`),
	// F07 bgv: Sub(ct deg 1, ct deg 2) copies the degree-2 term without negating it
	rule(`bgv\.Evaluator\.Sub/ct-ct/degree/result:value:alias:out==op0`, `bgv.Evaluator.Sub/ct-ct/degree/higher-degree-term-not-negated`),
	// F08 rlwe.PartialTracesSum (and its wrappers) keep the degree of a larger output
	rule(`(?:bgv\.Evaluator\.(?:InnerSum|RotateAndAdd)|ckks\.Evaluator\.(?:InnerSum|RotateAndAdd)|rlwe\.Evaluator\.(?:PartialTracesSum|Replicate))/ct/result:value:out-history:larger-degree`,
		`rlwe.Evaluator.PartialTracesSum/ct/larger-degree-output-keeps-old-component`),
	// F09 ckks: scalar Add/Sub, scale of a distinct output never written
	rule(`ckks\.Evaluator\.(Add|Sub)/`+ckksScalar+`/`+scaleSymptom, `ckks.Evaluator.$1/scalar/output-scale-not-set`),
	// F10 ckks: Add/Sub into a larger-degree output
	rule(`ckks\.Evaluator\.(Add|Sub)/(?:ct-ct|ct-ct/degree|ct-ct/scale|ct-pt|ct-pt/scale)/result:value:out-history:larger-degree`, `ckks.Evaluator.$1/element/larger-degree-output-keeps-old-component`),
	// F11 ckks: MulThenAdd with a non-integer scalar does not reject opOut == op0
	rule(`ckks\.Evaluator\.(?:MulThenAdd|MulRelinThenAdd)/`+ckksScalar+`/result:value:alias:out==op0`, `ckks.Evaluator.MulThenAdd/scalar/out==op0-not-rejected-wrong-value`),
	// F12, F13 ckks.Average
	rule(`ckks\.Evaluator\.Average/ct/result:meta(?::Scale)?:alias:out==op0`, `ckks.Evaluator.Average/ct/output-metadata-not-set`),
	rule(`ckks\.Evaluator\.Average/ct/result:(?:level|value):out-history:larger-level`, `ckks.Evaluator.Average/ct/larger-level-output-not-resized`),
	// F14 ckks.Encoder: coefficient-domain encoding of a short []*big.Float
	rule(`ckks\.Encoder\.Encode/\[\]bigfloat/result:value:out-history:dirty-words`, `ckks.Encoder.Encode/[]bigfloat/coefficient-domain-tail-not-zeroed`),
	// F15 rlwe.ApplyEvaluationKey
	rule(`rlwe\.Evaluator\.ApplyEvaluationKey/ct/result:(?:level|value):out-history:larger-level`, `rlwe.Evaluator.ApplyEvaluationKey/ct/larger-level-output-not-resized`),
	rule(`rlwe\.Evaluator\[large-ring\]\.ApplyEvaluationKey/small->large/result:(?:level|value):out-history:larger-level`, `rlwe.Evaluator.ApplyEvaluationKey/ct/larger-level-output-not-resized`),
	// F24 rlwe.SwitchCiphertextRingDegree (coefficient domain), small ring -> large ring: coefficients that are not a multiple of the gap keep their old value
	rule(`(?:rlwe \(functions\)\.SwitchCiphertextRingDegree|rlwe\.Evaluator\[large-ring\]\.ApplyEvaluationKey)/small->large/result:value:out-history:dirty-words`,
		`rlwe.SwitchCiphertextRingDegree/small->large/stale-coefficients-not-zeroed`),
	// F25 rlwe.ApplyEvaluationKey between rings of different degree (coefficient domain): output of larger level panics
	rule(`rlwe\.Evaluator\[large-ring\]\.ApplyEvaluationKey/(?:small->large|large->small)/panic:out-history:larger-level`, `rlwe.Evaluator.ApplyEvaluationKey/ring-switch/larger-level-output-panics`),
	// F26 rlwe.RingPackingEvaluator.Pack (and Repack / RepackNaive, which call it) consume their input ciphertexts
	rule(`rlwe\.RingPackingEvaluator\.(?:Pack|Repack|RepackNaive)/cts/input-modified:cts:.*`, `rlwe.RingPackingEvaluator.Pack/cts/input-ciphertexts-consumed`),
	// F27 rlwe.RingPackingEvaluator.Merge does not resize a larger-level output
	rule(`rlwe\.RingPackingEvaluator\.Merge/ct/result:(?:level|value):out-history:larger-level`, `rlwe.RingPackingEvaluator.Merge/ct/larger-level-output-not-resized`),
	// F16, F17 rlwe.InnerFunction
	rule(`rlwe\.Evaluator\.InnerFunction/ct/result:value:out-history:larger-degree`, `rlwe.Evaluator.InnerFunction/ct/larger-degree-output-keeps-old-component`),
	rule(`rlwe\.Evaluator\.InnerFunction/ct/result:(?:meta|value):alias:out==ctIn`, `rlwe.Evaluator.InnerFunction/ct/out==ctIn-coefficient-domain-result-left-in-NTT`),
	// F18 rlwe.Trace
	rule(`rlwe\.Evaluator\.Trace/ct/result:(?:meta|value):alias:out==ctIn`, `rlwe.Evaluator.Trace/ct/out==ctIn-coefficient-domain-result-left-in-NTT`),
	// F19 rlwe.Decryptor
	rule(`rlwe\.Decryptor\.Decrypt/ct/result:value:out-history:larger-level`, `rlwe.Decryptor.Decrypt/ct/larger-level-plaintext-Value-not-resized`),
	// F20 rgsw.ExternalProduct
	// (two or more special primes only; with one special prime both symptoms keep their generic signature)
	rule(`rgsw\.Evaluator\.ExternalProduct/ct-rgsw/2P/result:value:(?:out-history:dirty-words|alias:out==op0)`, `rgsw.Evaluator.ExternalProduct/ct-rgsw/distinct-output-read-before-written`),
	// F21 lintrans
	rule(`lintrans\.Evaluator\.(?:EvaluateMany|EvaluateSequential|MultiplyByDiagMatrix)/ct/result:value:out-history:larger-degree`, `lintrans.Evaluator.MultiplyByDiagMatrix/ct/larger-degree-output-keeps-old-component`),
	rule(`lintrans\.Evaluator\.MultiplyByDiagMatrixBSGS/ct/result:value:out-history:larger-degree`, `lintrans.Evaluator.MultiplyByDiagMatrixBSGS/ct/larger-degree-output-keeps-old-component`),
	// F23 mpbgv: Transform / Finalize never write the output's metadata and read the output's previous scale
	rule(`mpbgv\.(?:MaskedTransformProtocol\.Transform|RefreshProtocol\.Finalize)/ct/result:(?:meta:Scale|meta|value):(?:alias:out==ct(?:In)?|out-history:dirty-meta)`,
		`mpbgv.MaskedTransformProtocol.Transform/ct/output-metadata-not-set-and-output-scale-read`),
	// F22 ring.DivRoundByLastModulus
	rule(`ring\.Ring\.(?:DivRoundByLastModulus|DivRoundByLastModulusMany)/poly/input-modified:p0:.*`, `ring.Ring.DivRoundByLastModulus/poly/input-modified`),
}
