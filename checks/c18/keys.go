package main

import (
	"fmt"
	"sort"

	"github.com/tuneinsight/lattigo/v6/circuits/ckks/bootstrapping"
	"github.com/tuneinsight/lattigo/v6/core/rlwe"
	"github.com/tuneinsight/lattigo/v6/ring"

	"verif/engine"
)

// recSet wraps the evaluation key set handed to the evaluator and records every request, so that
// "the key-generation helper produces exactly the keys the evaluator needs" is observed on an actual
// bootstrap rather than read off GaloisElements().
type recSet struct {
	inner   rlwe.EvaluationKeySet
	galReq  map[uint64]int
	rlkReq  int
	missing map[uint64]bool
	noRlk   bool
}

func newRecSet(inner rlwe.EvaluationKeySet) *recSet {
	return &recSet{inner: inner, galReq: map[uint64]int{}, missing: map[uint64]bool{}}
}

func (r *recSet) GetGaloisKey(galEl uint64) (*rlwe.GaloisKey, error) {
	r.galReq[galEl]++
	k, err := r.inner.GetGaloisKey(galEl)
	if err != nil || k == nil {
		r.missing[galEl] = true
	}
	return k, err
}

func (r *recSet) GetGaloisKeysList() []uint64 { return r.inner.GetGaloisKeysList() }

func (r *recSet) GetRelinearizationKey() (*rlwe.RelinearizationKey, error) {
	r.rlkReq++
	k, err := r.inner.GetRelinearizationKey()
	if err != nil || k == nil {
		r.noRlk = true
	}
	return k, err
}

func (r *recSet) ShallowCopy() rlwe.EvaluationKeySet { return r } // keep recording through copies

func sortedU64(m map[uint64]bool) []uint64 {
	r := make([]uint64, 0, len(m))
	for k := range m {
		r = append(r, k)
	}
	sort.Slice(r, func(i, j int) bool { return r[i] < r[j] })
	return r
}

// gadgetLevels returns (min,max) of LevelQ and LevelP over every polynomial of the gadget ciphertext: the level
// accessors of the library read one entry only, the advisory is about *all* key material.
func gadgetLevels(g *rlwe.GadgetCiphertext) (minQ, maxQ, minP, maxP int) {
	minQ, minP = 1<<30, 1<<30
	maxQ, maxP = -2, -2
	for i := range g.Value {
		for j := range g.Value[i] {
			for _, qp := range g.Value[i][j] {
				lq, lp := qp.LevelQ(), qp.LevelP()
				if lq < minQ {
					minQ = lq
				}
				if lq > maxQ {
					maxQ = lq
				}
				if lp < minP {
					minP = lp
				}
				if lp > maxP {
					maxP = lp
				}
			}
		}
	}
	return
}

// checkKeyLevels is item 1 (key confinement + completeness of the generated set) for one parameter set.
// tag names the catalogue entry in notes; sigs are per key kind so that distinct defects stay distinct.
func checkKeyLevels(c *engine.Chooser, tag string, p bootstrapping.Parameters, evk *bootstrapping.EvaluationKeys) {
	pN2 := p.BootstrappingParameters
	maxQ, maxP := pN2.MaxLevelQ(), pN2.MaxLevelP()

	// (a) key material protected only by the low-weight ephemeral secret: EvkDenseToSparse re-encrypts *under the
	// sparse secret* (keys.go: kgenSparse.GenEvaluationKeyNew(skDense, skSparse)), so its security rests on H=32 alone
	// and it must live at the smallest modulus Q[0]·P[0] (SECURITY.md, advisory 04.2025).
	if p.EphemeralSecretWeight > 0 {
		c.Cover("encaps", "on")
		if evk.EvkDenseToSparse == nil || evk.EvkSparseToDense == nil {
			c.Fail("C18/keys/encapsulation-key-missing", "%s: EphemeralSecretWeight=%d but EvkDenseToSparse=%v EvkSparseToDense=%v",
				tag, p.EphemeralSecretWeight, evk.EvkDenseToSparse != nil, evk.EvkSparseToDense != nil)
		} else {
			_, q1, _, p1 := gadgetLevels(&evk.EvkDenseToSparse.GadgetCiphertext)
			if evk.EvkDenseToSparse.LevelQ() != 0 || evk.EvkDenseToSparse.LevelP() != 0 || q1 != 0 || p1 != 0 {
				c.Fail("C18/keys/EvkDenseToSparse-not-at-smallest-modulus",
					"%s: EvkDenseToSparse (protected only by the H=%d ephemeral secret) is at LevelQ=%d LevelP=%d (max over polys %d/%d), want 0/0",
					tag, p.EphemeralSecretWeight, evk.EvkDenseToSparse.LevelQ(), evk.EvkDenseToSparse.LevelP(), q1, p1)
			}
			c.Outcome("d2s", evk.EvkDenseToSparse.LevelQ(), evk.EvkDenseToSparse.LevelP())
			// EvkSparseToDense is under the dense secret; the evaluator applies it to the ciphertext raised to the full Q
			// (ModUp: GadgetProductHoisted at levelQ = QCount-1), so it must be at the top level.
			q0, _, p0, _ := gadgetLevels(&evk.EvkSparseToDense.GadgetCiphertext)
			if q0 != maxQ || p0 != maxP {
				c.Fail("C18/keys/EvkSparseToDense-level", "%s: EvkSparseToDense at LevelQ=%d LevelP=%d, evaluator needs %d/%d", tag, q0, p0, maxQ, maxP)
			}
		}
	} else {
		c.Cover("encaps", "off")
		if evk.EvkDenseToSparse != nil || evk.EvkSparseToDense != nil {
			c.Fail("C18/keys/encapsulation-key-without-ephemeral-secret", "%s: EphemeralSecretWeight=0 but encapsulation keys were generated", tag)
		}
	}

	// (b) relinearisation and Galois keys: used at every level of the circuit, starting at the top one.
	if evk.MemEvaluationKeySet == nil {
		c.Fail("C18/keys/no-key-set", "%s: MemEvaluationKeySet is nil", tag)
		return
	}
	if rlk, err := evk.GetRelinearizationKey(); err != nil || rlk == nil {
		c.Fail("C18/keys/relinearization-key-missing", "%s: %v", tag, err)
	} else if q0, _, p0, _ := gadgetLevels(&rlk.GadgetCiphertext); q0 != maxQ || p0 != maxP {
		c.Fail("C18/keys/relinearization-key-level", "%s: relinearization key at %d/%d, want %d/%d", tag, q0, p0, maxQ, maxP)
	}
	want := map[uint64]bool{}
	for _, g := range p.GaloisElements(pN2) {
		want[g] = true
	}
	// exactly the announced list: a caller without the secret key (multiparty, streamed or compressed keys) can only
	// generate what Parameters.GaloisElements announces, so "announced ∪ whatever the helper adds" is not good enough
	have := map[uint64]bool{}
	for _, g := range evk.GetGaloisKeysList() {
		have[g] = true
		gk, err := evk.GetGaloisKey(g)
		if err != nil || gk == nil {
			c.Fail("C18/keys/galois-key-listed-but-unavailable", "%s: galEl %d: %v", tag, g, err)
			continue
		}
		if gk.GaloisElement != g {
			c.Fail("C18/keys/galois-key-wrong-element", "%s: key stored under %d is for %d", tag, g, gk.GaloisElement)
		}
		if q0, _, p0, _ := gadgetLevels(&gk.GadgetCiphertext); q0 != maxQ || p0 != maxP {
			c.Fail("C18/keys/galois-key-level", "%s: Galois key %d at %d/%d, want %d/%d", tag, g, q0, p0, maxQ, maxP)
		}
	}
	for _, g := range sortedU64(want) {
		if !have[g] {
			c.Fail("C18/keys/advertised-galois-key-not-generated", "%s: Parameters.GaloisElements contains %d, GenEvaluationKeys did not produce it", tag, g)
		}
	}
	for _, g := range sortedU64(have) {
		if !want[g] {
			c.Fail("C18/keys/galois-key-not-advertised", "%s: GenEvaluationKeys produced a key for %d that Parameters.GaloisElements does not list", tag, g)
		}
	}

	// (c) ring-switching keys exactly when the residual ring differs.
	resN, resCI := p.ResidualParameters.N(), p.ResidualParameters.RingType() == ring.ConjugateInvariant
	sw := evk.EvkN1ToN2 != nil || evk.EvkN2ToN1 != nil
	ci := evk.EvkCmplxToReal != nil || evk.EvkRealToCmplx != nil
	switch {
	case resCI:
		c.Cover("ringkeys", "conjugate-invariant")
		if evk.EvkCmplxToReal == nil || evk.EvkRealToCmplx == nil || sw {
			c.Fail("C18/keys/ring-type-switch-keys", "%s: conjugate-invariant residual ring: CmplxToReal=%v RealToCmplx=%v N1ToN2/N2ToN1 present=%v",
				tag, evk.EvkCmplxToReal != nil, evk.EvkRealToCmplx != nil, sw)
		}
	case resN != pN2.N():
		c.Cover("ringkeys", "degree-switch")
		if evk.EvkN1ToN2 == nil || evk.EvkN2ToN1 == nil || ci {
			c.Fail("C18/keys/ring-degree-switch-keys", "%s: residual N=%d != N=%d: N1ToN2=%v N2ToN1=%v ring-type keys present=%v",
				tag, resN, pN2.N(), evk.EvkN1ToN2 != nil, evk.EvkN2ToN1 != nil, ci)
		} else {
			// the switch happens at the ciphertext's level: at most the residual top level on the way in, exactly the
			// residual top level on the way out
			need := p.ResidualParameters.MaxLevel()
			for i, k := range []*rlwe.EvaluationKey{evk.EvkN1ToN2, evk.EvkN2ToN1} {
				if q0, _, _, _ := gadgetLevels(&k.GadgetCiphertext); q0 < need {
					c.Fail("C18/keys/ring-degree-switch-key-level", "%s: Evk%s at LevelQ=%d < residual max level %d", tag, []string{"N1ToN2", "N2ToN1"}[i], q0, need)
				}
			}
		}
	default:
		c.Cover("ringkeys", "none")
		if sw || ci {
			c.Fail("C18/keys/unneeded-ring-switch-keys", "%s: residual ring equals the bootstrapping ring but switch keys were generated", tag)
		}
	}
}

// checkRequests compares what the evaluator asked for during an actual bootstrap with what was generated.
func checkRequests(c *engine.Chooser, tag string, rec *recSet) {
	if len(rec.missing) > 0 {
		c.Fail("C18/keys/evaluator-requested-missing-galois-key", "%s: bootstrap requested Galois keys %v which GenEvaluationKeys did not produce", tag, sortedU64(rec.missing))
	}
	if rec.noRlk {
		c.Fail("C18/keys/evaluator-requested-missing-relinearization-key", "%s", tag)
	}
	var unused []uint64
	for _, g := range rec.inner.GetGaloisKeysList() {
		if rec.galReq[g] == 0 {
			unused = append(unused, g)
		}
	}
	sort.Slice(unused, func(i, j int) bool { return unused[i] < unused[j] })
	if len(unused) > 0 {
		c.Cover("keys", "generated-but-not-requested")
		c.Note("%s: generated but never requested in this bootstrap: %v", tag, unused)
	} else {
		c.Cover("keys", "all-generated-keys-requested")
	}
	c.Outcome("req", len(rec.galReq), rec.rlkReq > 0, fmt.Sprint(len(unused)))
}
