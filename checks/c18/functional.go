package main

import (
	"fmt"
	"math"
	"math/big"
	"os"
	"strings"

	"github.com/tuneinsight/lattigo/v6/circuits/ckks/bootstrapping"
	"github.com/tuneinsight/lattigo/v6/core/rlwe"
	"github.com/tuneinsight/lattigo/v6/ring"
	"github.com/tuneinsight/lattigo/v6/schemes/ckks"
	"github.com/tuneinsight/lattigo/v6/utils/bignum"

	"verif/engine"
	"verif/uni"
)

// signatures of the genuine defects found on the unchanged tree (FINDINGS.md)
const (
	sigMultiMatrixLevel = "C18/dft/level-with-several-matrices-consumes-a-prime-per-matrix"
	sigCISparse         = "C18/func/conjugate-invariant-input-sparser-than-LogSlots"
	sigCIIterations     = "C18/func/conjugate-invariant-with-iterations"
	sigCopyN1           = "C18/copy/ShallowCopy-drops-xPow2InvN1"
	sigPackLevel        = "C18/func/packing-sparse-ciphertexts-above-level-0"
)

// multiMatrixLevel reports whether a [level][scales] split puts several matrices on one prime.
func multiMatrixLevel(split [][]int) bool {
	for _, l := range split {
		if len(l) > 1 {
			return true
		}
	}
	return false
}

const floatPrec = 192 // bits of the reference arithmetic (the PREC128 configurations reach > 53 bits)

// message returns the test vector of ciphertext j: distinct values in every slot and across the batch (a swapped,
// mis-rotated or mis-unpacked slot is visible), extremes ±amp in the first slots, real-only for the
// conjugate-invariant ring. Low-discrepancy ramps, no randomness.
func message(slots, j int, amp float64, realOnly bool) []*bignum.Complex {
	v := make([]*bignum.Complex, slots)
	frac := func(x float64) float64 { return x - math.Floor(x) }
	for i := range v {
		t := float64(i + 1 + 131*j)
		re := amp * (2*frac(t*0.6180339887498949) - 1)
		im := amp * (2*frac(t*0.4142135623730951+0.25) - 1)
		switch i {
		case 0:
			re, im = amp, -amp
		case 1:
			re, im = -amp, amp*(1-1.0/64)
		}
		if j > 0 && i < 2 { // keep batch members distinct in the extreme slots too
			re *= 1 - float64(j)/16
		}
		if realOnly {
			im = 0
		}
		v[i] = &bignum.Complex{new(big.Float).SetPrec(floatPrec).SetFloat64(re), new(big.Float).SetPrec(floatPrec).SetFloat64(im)}
	}
	return v
}

// log2Err returns -log2 of the largest absolute real or imaginary deviation.
func precisionBits(want, have []*bignum.Complex) float64 {
	worst := new(big.Float).SetPrec(floatPrec)
	d := new(big.Float).SetPrec(floatPrec)
	for i := range want {
		for k := 0; k < 2; k++ {
			d.Sub(want[i][k], have[i][k])
			d.Abs(d)
			if d.Cmp(worst) > 0 {
				worst.Set(d)
			}
		}
	}
	if worst.Sign() == 0 {
		return floatPrec
	}
	mant := new(big.Float)
	exp := worst.MantExp(mant)
	m, _ := mant.Float64()
	return -(float64(exp) + math.Log2(m))
}

type setup struct {
	res  ckks.Parameters
	btp  bootstrapping.Parameters
	sk   *rlwe.SecretKey
	evk  *bootstrapping.EvaluationKeys
	eval *bootstrapping.Evaluator
	rec  *recSet
}

// build instantiates parameters, keys and evaluator through the public constructors; ok=false: the library
// rejected the literal with an error (counted in coverage by the caller).
func build(c *engine.Chooser, tag string, resLit ckks.ParametersLiteral, btpLit bootstrapping.ParametersLiteral, adjust func(*bootstrapping.Parameters), announced bool) (s setup, rejected string) {
	var err error
	if s.res, err = ckks.NewParametersFromLiteral(resLit); err != nil {
		return s, "residual: " + err.Error()
	}
	if s.btp, err = bootstrapping.NewParametersFromLiteral(s.res, btpLit); err != nil {
		return s, "bootstrapping: " + err.Error()
	}
	if adjust != nil {
		adjust(&s.btp)
	}
	s.sk = rlwe.NewKeyGenerator(s.res).GenSecretKeyNew()
	if s.evk, _, err = s.btp.GenEvaluationKeys(s.sk); err != nil {
		c.Fail("C18/keys/GenEvaluationKeys-error", "%s: %v", tag, err)
		return s, ""
	}
	checkKeyLevels(c, tag, s.btp, s.evk)
	if announced {
		// the bundle built from the announced quantities replaces the helper's
		s.evk, _ = announcedKeys(s.btp, s.sk)
		checkKeyLevels(c, tag+" (keys built from the announced lists)", s.btp, s.evk)
		checkCompleteness(c, tag, s.btp, s.evk)
		if c.Failed() {
			return s, ""
		}
		if s.eval, err = bootstrapping.NewEvaluator(s.btp, s.evk); err != nil {
			if _, e2 := bootstrapping.NewEvaluator(s.btp, mustKeys(s.btp, s.sk)); e2 == nil {
				c.Fail("C18/announced/NewEvaluator-refuses-keys-built-from-announced-lists", "%s: %v (the helper's keys are accepted)", tag, err)
				return s, ""
			}
			return s, "evaluator: " + err.Error()
		}
	} else if s.eval, err = bootstrapping.NewEvaluator(s.btp, s.evk); err != nil {
		return s, "evaluator: " + err.Error()
	}
	// from here on every key request of the circuit goes through the recorder (all sub-evaluators share this
	// *rlwe.Evaluator by pointer)
	s.rec = newRecSet(s.evk.MemEvaluationKeySet)
	s.eval.Evaluator.Evaluator.EvaluationKeySet = s.rec
	return s, ""
}

func mustKeys(p bootstrapping.Parameters, sk *rlwe.SecretKey) *bootstrapping.EvaluationKeys {
	evk, _, err := p.GenEvaluationKeys(sk)
	if err != nil {
		panic("harness: " + err.Error())
	}
	return evk
}

// judgeIterated: what the iterated high-precision mode *announces*, independently of the calibration.
//
// IterationsParameters.BootstrappingPrecision[i] is documented as "the expected precision of each previous iteration":
// entry i states what bootstrap number i contributes, so after the last iteration the message is known to
// sum(entries) bits plus whatever the final bootstrap contributes. When every entry is truthful (not larger than the
// precision one bootstrap of this very configuration reaches: looked up in the calibration entry of the same
// configuration without iterations), the final bootstrap contributes at least max(entries):
//
//	announced >= sum(entries) + max(entries), capped by what the input ciphertext carries (log2(scale) - LogN - 2),
//
// and the oracle demands announced - marginBits. Applied with a reserved prime only: without one the documentation
// itself says the last iteration may gain less.
func judgeIterated(c *engine.Chooser, k cfg, key string, bits float64) {
	prec, reserved := k.iterations()
	if prec == nil || reserved == 0 || os.Getenv("VERIF_C18_CALIBRATE") != "" {
		return
	}
	sum, max := 0.0, 0.0
	for _, p := range prec {
		sum += p
		if p > max {
			max = p
		}
	}
	single := k
	single.Iter = 0
	e, ok := calibration["func/"+single.key()]
	if !ok || e.Min < max+1 {
		// the entries overstate what one bootstrap of this configuration delivers (or it is unknown): nothing is announced
		c.Cover("announced", "precondition-not-met")
		return
	}
	_, logScale := k.residualChain()
	announced := sum + max
	if lim := float64(logScale - k.residualLogN() - 2); announced > lim {
		announced = lim
	}
	c.Cover("announced", fmt.Sprintf("iterations=%d", len(prec)))
	if bits < announced-marginBits {
		c.Fail("C18/func/iterated-precision-below-announced",
			"%s: BootstrappingPrecision=%v with a %d-bit reserved prime: worst-slot precision %.2f bits < %.0f = announced %.0f (sum of the entries + one bootstrap of >= %.0f bits; a single bootstrap of this configuration is calibrated at %.1f) - %.0f",
			key, prec, reserved, bits, announced-marginBits, announced, max, e.Min, marginBits)
	}
}

// onlyKeys restricts a recording run to the configurations whose key contains one of the comma-separated substrings
// in VERIF_C18_ONLYKEY (used to calibrate added configurations without re-measuring the others).
func recordingSkips(key string) bool { return recordingSkipsID("func/"+key, key) }

// recordingSkipsID: id is the calibration id (<area>/<key>).
func recordingSkipsID(id, key string) bool {
	if os.Getenv("VERIF_C18_CALIBRATE") == "" {
		return false
	}
	if os.Getenv("VERIF_C18_NEWONLY") != "" {
		// only configurations that have no calibration entry yet
		if _, ok := calibration[id]; ok {
			return true
		}
	}
	f := os.Getenv("VERIF_C18_ONLYKEY")
	if f == "" {
		return false
	}
	for _, sub := range strings.Split(f, ",") {
		if strings.Contains(key, sub) {
			return false
		}
	}
	return true
}

// runFunctional is one leaf of item 2: one configuration, one batch of ciphertexts.
func runFunctional(c *engine.Chooser, k cfg) {
	key := k.key()
	if recordingSkips(key) {
		return
	}
	uni.Seed(c, "func", key)
	resLit, btpLit := k.literals()
	calKey := key
	if k.Announced {
		if os.Getenv("VERIF_C18_CALIBRATE") != "" {
			return // judged against the entry of the same configuration with the helper's keys
		}
		key += "/announced-keys"
	}
	s, rejected := build(c, key, resLit, btpLit, nil, k.Announced)
	if c.Failed() {
		return
	}
	if rejected != "" {
		// Only refusals the documentation announces are outside "supported parameter sets": a DFT factorisation deeper
		// than LogSlots (parameters_literal.go: "cannot contain parameters for a depth > LogSlots") and iterations on a
		// conjugate-invariant residual ring and a double angle with the sine (NewEvaluator). Every other configuration of this family is legal: refusing
		// it is a violation.
		depth := func(split [][]int) (d int) {
			for _, l := range split {
				d += len(l)
			}
			return
		}
		switch {
		case depth(c2sSplits[k.C2S]) > k.LogSlots || depth(s2cSplits[k.S2C]) > k.LogSlots:
			c.Cover("rejected", "dft-depth-above-LogSlots")
		case k.Residual == 2 && k.Iter != 0:
			c.Cover("rejected", "conjugate-invariant-with-iterations")
		case k.Mod1 == 1 && k.DblAngle > 1:
			// NewEvaluator: "cannot use double angle formula for Mod1Type = Sin"
			c.Cover("rejected", "double-angle-with-sine")
		default:
			c.Fail("C18/func/legal-configuration-refused", "%s: %s", key, rejected)
			return
		}
		c.Cover("rejected", "constructor-error")
		c.Note("%s rejected: %s", key, rejected)
		c.Outcome("rejected", rejected)
		return
	}
	res := s.res
	realOnly := res.RingType() == ring.ConjugateInvariant
	ctLog := k.ctLogSlots()
	level := k.inputLevel()
	// Input classes that hit a defect recorded in FINDINGS.md get that defect's single signature for whatever
	// goes wrong after the bootstrap (error, level, scale, precision): one defect, one sig; every other leaf keeps the
	// specific sigs. Key-level oracles above are not affected.
	known := ""
	switch {
	case multiMatrixLevel(c2sSplits[k.C2S]) || multiMatrixLevel(s2cSplits[k.S2C]):
		known = sigMultiMatrixLevel
	case realOnly && ctLog < s.btp.LogMaxSlots():
		known = sigCISparse
	case realOnly && k.Iter != 0:
		// the iteration loop subtracts the input from an output that still carries the 1/2 of the ring-type switch
		known = sigCIIterations
	case k.Copy && (k.Residual == 1 || k.Residual == 3) && k.CtGap > 0 && k.Batch > 0:
		// ShallowCopy + ring-degree switch + several sparse ciphertexts packed in the small ring
		known = sigCopyN1
	case !realOnly && k.Batch > 0 && level > 0 && ctLog < s.btp.LogMaxSlots():
		// several sparse ciphertexts are packed into one before the bootstrap: the monomials used for that exist at level 0 only
		known = sigPackLevel
	}
	fail := func(sig, format string, args ...interface{}) {
		if known != "" {
			sig = known
		}
		c.Fail(sig, format, args...)
	}
	amp := 1.0
	if k.Small {
		amp = 1.0 / 256
	}
	ecd := ckks.NewEncoder(res)
	if k.Iter != 0 {
		// the iterated mode announces more than 53 bits: encode, decode and compare in arbitrary precision, well
		// above the residual scale 2^80 (the default encoder precision equals log2(scale))
		ecd = ckks.NewEncoder(res, 160)
	}
	enc := rlwe.NewEncryptor(res, s.sk)
	dec := rlwe.NewDecryptor(res, s.sk)
	n := k.Batch + 1
	want := make([][]*bignum.Complex, n)
	cts := make([]rlwe.Ciphertext, n)
	for j := 0; j < n; j++ {
		want[j] = message(1<<ctLog, j, amp, realOnly)
		pt := ckks.NewPlaintext(res, level)
		pt.LogDimensions = ring.Dimensions{Rows: 0, Cols: ctLog}
		if err := ecd.Encode(want[j], pt); err != nil {
			panic(fmt.Sprintf("harness: encode: %v", err))
		}
		// precondition: the encoder itself round-trips the message (it does not for a single slot in the
		// conjugate-invariant ring: C07/ckks/embed/conjugate-invariant-single-slot) — otherwise the ciphertext does not
		// carry `want` in the first place and nothing can be said about the bootstrap
		if j == 0 {
			back := make([]*bignum.Complex, 1<<ctLog)
			if err := ecd.Decode(pt, back); err != nil || precisionBits(want[j], back) < 20 {
				c.Skip("the ckks encoder does not round-trip this message (encoder finding of C07)")
				return
			}
		}
		ct, err := enc.EncryptNew(pt)
		if err != nil {
			panic(fmt.Sprintf("harness: encrypt: %v", err))
		}
		cts[j] = *ct
		if k.Iter != 0 {
			// reference of the high-precision mode: the message the ciphertext actually carries (encoding and
			// encryption noise of ~2^-72 included), as bootstrapping is announced to preserve *that*
			enc0 := make([]*bignum.Complex, 1<<ctLog)
			if err := ecd.Decode(dec.DecryptNew(ct), enc0); err != nil {
				panic(fmt.Sprintf("harness: decode: %v", err))
			}
			want[j] = enc0
		}
	}

	ev := s.eval
	if k.Copy {
		// dirty the original's buffers with one bootstrap of an unrelated ciphertext, then work on the copy
		pt := ckks.NewPlaintext(res, level)
		pt.LogDimensions = ring.Dimensions{Rows: 0, Cols: ctLog}
		if err := ecd.Encode(message(1<<ctLog, 7, amp, realOnly), pt); err != nil {
			panic(fmt.Sprintf("harness: encode: %v", err))
		}
		ct, err := enc.EncryptNew(pt)
		if err != nil {
			panic(fmt.Sprintf("harness: encrypt: %v", err))
		}
		if _, err = s.eval.BootstrapMany([]rlwe.Ciphertext{*ct}); err != nil {
			fail("C18/func/bootstrap-error", "%s: warm-up bootstrap on the original evaluator: %v", key, err)
			return
		}
		ev = s.eval.ShallowCopy()
	}
	var out []rlwe.Ciphertext
	var err error
	_, panicked := uni.Try(func() error {
		if n == 1 && !realOnly {
			var o *rlwe.Ciphertext
			if o, err = ev.Bootstrap(&cts[0]); err == nil {
				out = []rlwe.Ciphertext{*o}
			}
			c.Cover("api", "Bootstrap")
		} else {
			out, err = ev.BootstrapMany(cts)
			c.Cover("api", "BootstrapMany")
		}
		return nil
	})
	if panicked != nil {
		fail("C18/func/bootstrap-panic", "%s: panic: %v", key, panicked)
		return
	}
	checkRequests(c, key, s.rec)
	if err != nil {
		fail("C18/func/bootstrap-error", "%s: %v", key, err)
		return
	}
	if len(out) != n {
		fail("C18/func/batch-size", "%s: %d ciphertexts in, %d out", key, n, len(out))
		return
	}
	worst := math.Inf(1)
	for j := range out {
		o := &out[j]
		if o.Level() != ev.OutputLevel() {
			fail("C18/func/output-level", "%s: ct %d at level %d, OutputLevel()=%d", key, j, o.Level(), ev.OutputLevel())
		}
		if !o.Scale.Equal(res.DefaultScale()) {
			fail("C18/func/output-scale", "%s: ct %d scale 2^%.6f, default scale 2^%.6f", key, j, o.Scale.Log2(), res.DefaultScale().Log2())
		}
		if o.LogDimensions.Cols != ctLog {
			fail("C18/func/output-logslots", "%s: ct %d LogSlots %d, input had %d", key, j, o.LogDimensions.Cols, ctLog)
			return
		}
		have := make([]*bignum.Complex, 1<<ctLog)
		if err := ecd.Decode(dec.DecryptNew(o), have); err != nil {
			fail("C18/func/decode-error", "%s: %v", key, err)
			return
		}
		if p := precisionBits(want[j], have); p < worst {
			worst = p
		}
	}
	if multiMatrixLevel(c2sSplits[k.C2S]) {
		// CoeffsToSlots acts on m + q·I with |I| up to K and m/q = 2^-LogMessageRatio: two matrices sharing a prime have
		// sqrt(prime) <= 2^30 of scale each, too little to carry the message through at the reduced ring's ratio 2^16
		// whether or not the levels are right. Level, scale and errors are judged; the precision is not.
		c.Cover("calibration", "not-judged-c2s-sqrt-scales")
	} else {
		judgePrecision(c, "func", calKey, worst, known)
	}
	if known == "" {
		judgeIterated(c, k, key, worst)
	}
	c.Cover("logN", fmt.Sprint(k.LogN))
	c.Cover("ctLogSlots", slotBucket(ctLog, k.residualLogN(), realOnly))
	c.Outcome(key, int(worst))
}

func slotBucket(ctLog, logN int, ci bool) string {
	max := logN - 1
	if ci {
		max = logN
	}
	switch {
	case ctLog == max:
		return "full"
	case ctLog == max-1:
		return "half"
	case ctLog <= 2:
		return fmt.Sprint(ctLog)
	}
	return "mid"
}
