package main

import (
	_ "embed"
	"encoding/json"
	"fmt"
	"math"
	"os"

	"verif/engine"
)

// Precision oracle on the reduced rings.
//
// The precision a shipped set announces (e.g. "27.9 bits for H=192", default_parameters.go / parameters_literal.go)
// is stated for LogN=16, 2^15 slots and the shipped moduli; it does not transfer to LogN 6..10 with the test
// suite's reduction recipe (different Q, message ratio raised by 16-LogN, other K / degree). The library's own
// acceptance threshold for those reduced sets (bootstrapping_test.go: log2(scale) - (LogN+2) - 10 bits of *average*
// precision) is applied as a floor where it is defined, and the deciding bound is a calibration table:
// calibration.json holds, per configuration key, the worst-slot precision measured on the unmodified tree
// (minimum over VERIF_SEED 1..5); the oracle demands measured - marginBits. A uniform degradation already present
// in the tree when the table was produced is therefore baked in (DESIGN §9).
//
// Regenerate: VERIF_C18_CALIBRATE=/tmp/c18.cal VERIF_SEED=s ./run C18 <tier> for s in 1..5, then
// `go run ./checks/c18/calibrate /tmp/c18.cal > checks/c18/calibration.json`.

const marginBits = 6.0

const uninformativeBits = 10.0

//go:embed calibration.json
var calibrationJSON []byte

type calEntry struct {
	Min  float64 `json:"min"`  // smallest worst-slot precision over the calibration seeds (bits)
	Max  float64 `json:"max"`  // largest (documentation only)
	Runs int     `json:"runs"` // number of measurements
}

var calibration = func() map[string]calEntry {
	m := map[string]calEntry{}
	if len(calibrationJSON) > 0 {
		if err := json.Unmarshal(calibrationJSON, &m); err != nil {
			panic("calibration.json: " + err.Error())
		}
	}
	return m
}()

// judgePrecision compares a measured worst-slot precision with the calibrated bound of (area,key).
func judgePrecision(c *engine.Chooser, area, key string, bits float64, sigOverride ...string) {
	id := area + "/" + key
	c.Note("%s: worst-slot precision %.2f bits", id, bits)
	if len(sigOverride) > 0 && sigOverride[0] != "" {
		// Leaf in the input class of a recorded defect (FINDINGS.md): what the unmodified tree produces there is the
		// defect itself, so it must not be calibrated in. The bound is the fixed floor below which the output simply is
		// not the input message any more; every working configuration of this check has more than 11 bits.
		c.Cover("calibration", "known-defect-class")
		floor := uninformativeBits
		if sigOverride[0] == sigMultiMatrixLevel {
			// {30},{30,30}-style splits leave ~10 bits even when they work (30-bit matrix scales): garbage is <= 0 bits
			floor = 4
		}
		if bits < floor {
			c.Fail(sigOverride[0], "%s: worst-slot precision %.2f bits: the bootstrapped ciphertext does not carry the input message", id, bits)
		}
		return
	}
	if path := os.Getenv("VERIF_C18_CALIBRATE"); path != "" {
		f, err := os.OpenFile(path, os.O_APPEND|os.O_CREATE|os.O_WRONLY, 0o644)
		if err == nil {
			fmt.Fprintf(f, "%s %d %.4f\n", id, c.Seed, bits)
			f.Close()
		}
		c.Cover("calibration", "recording")
		return
	}
	e, ok := calibration[id]
	if !ok {
		// a configuration added after the last calibration: level/scale/key oracles still applied, precision not judged
		c.Cover("calibration", "missing")
		c.Note("%s: no calibration entry, precision not judged", id)
		return
	}
	if e.Min < uninformativeBits {
		// settings whose precision is decided by an ill-conditioned approximation (CosDiscrete without double angle:
		// the Han-Ki interpolant has huge coefficients) carry no message-preservation claim; level, scale and key
		// oracles still apply
		c.Cover("calibration", "uninformative")
		c.Note("%s: calibrated precision %.1f bits < %.0f: precision not judged", id, e.Min, uninformativeBits)
		return
	}
	c.Cover("calibration", "hit")
	bound := math.Floor(e.Min) - marginBits
	if bits < bound {
		sig := "C18/" + area + "/precision-below-calibrated-bound"
		if len(sigOverride) > 0 && sigOverride[0] != "" {
			sig = sigOverride[0]
		}
		c.Fail(sig,
			"%s: worst-slot precision %.2f bits < %.0f (calibrated minimum %.2f over %d seeded runs on the unmodified tree, minus %.0f bits margin)",
			id, bits, bound, e.Min, e.Runs, marginBits)
	}
}
