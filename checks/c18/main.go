// C18 — bootstrapping restores levels, preserves the message, confines sparse keys.
//
// Item 1 (keys.go, defaults.go): every exported default literal re-instantiated at LogN 8..10 and every reduced
// configuration: levels of every generated key, completeness of the Galois set, requests recorded during a real bootstrap.
// Item 2 (config.go, functional.go): reduced configurations, deviation-bounded around the ordinary one.
// Item 3 (subcircuits.go): homomorphic DFT pair and mod-1 evaluator on their own.
package main

import (
	"fmt"
	"os"
	"time"

	"verif/engine"
)

// axis is one option of the configuration space; alternative 0 is the default and is not listed.
type axis struct {
	name string
	alts int // number of non-default alternatives
	set  func(k *cfg, alt int)
}

var axes = []axis{
	{"dense", 1, func(k *cfg, a int) { k.Dense = true }},
	{"noencaps", 1, func(k *cfg, a int) { k.NoEncaps = true }},
	{"residual", 3, func(k *cfg, a int) { k.Residual = a }},
	{"batch", 3, func(k *cfg, a int) { k.Batch = a }},
	{"ctgap", 2, func(k *cfg, a int) { k.CtGap = a }},
	{"iter", 3, func(k *cfg, a int) { k.Iter = a }},
	{"mod1", 2, func(k *cfg, a int) { k.Mod1 = a }},
	{"dblangle", 3, func(k *cfg, a int) { k.DblAngle = a }}, // DoubleAngle 0,1,2 (3 is the default)
	{"arcsine", 2, func(k *cfg, a int) { k.ArcSine = a }},
	{"c2s", len(c2sSplits) - 1, func(k *cfg, a int) { k.C2S = a }},
	{"s2c", len(s2cSplits) - 1, func(k *cfg, a int) { k.S2C = a }},
	{"inlevel", 2, func(k *cfg, a int) { k.InLevel = a }},
	{"small", 1, func(k *cfg, a int) { k.Small = true }},
	{"q0", 2, func(k *cfg, a int) { k.Q0 = a }}, // first residual prime below the EvalMod scale: ModUp has to scale the raised ciphertext
}

type base struct{ logN, logSlots, ctGap int }

func bases(tier string) []base {
	logNs := []int{8, 9}
	if tier == "thorough" {
		logNs = []int{8, 9, 10}
	}
	var r []base
	for _, n := range logNs {
		// ciphertext LogSlots 0 (one slot) is reached through the literal's minimum LogSlots=1 and a sparser input
		r = append(r, base{n, 1, 1}, base{n, 1, 0}, base{n, 2, 0}, base{n, n - 2, 0}, base{n, n - 1, 0})
	}
	return r
}

// functionalScenarios partitions "all configurations with at most `bound` deviations from the base" by the first
// deviating axis: scenario <base>/<axis>=<alt> fixes that deviation and lets the engine enumerate at most bound-1
// further deviations on the axes *after* it, so every configuration is executed exactly once and scenarios are
// small and of similar cost (one bootstrap each in the quick tier).
func functionalScenarios(tier string) []engine.Scenario {
	var scs []engine.Scenario
	for _, b := range bases(tier) {
		b := b
		// deviation bound. quick: 1 everywhere, 2 for the fully packed and the single-slot base at LogN 8.
		// thorough: 2 for every base at LogN 8, 9 and 10.
		full := b.logSlots == b.logN-1
		bound := 1
		if tier == "thorough" || (b.logN == 8 && (full || b.ctGap != 0)) {
			bound = 2
		}
		mk := func(first, alt int) engine.Scenario {
			name := fmt.Sprintf("func/N%d/s%d", b.logN, b.logSlots)
			if b.ctGap != 0 {
				name += fmt.Sprintf("g%d", b.ctGap)
			}
			if first < 0 {
				name += "/default"
			} else {
				name += fmt.Sprintf("/%s=%d", axes[first].name, alt)
			}
			return engine.Scenario{Name: name, Bound: bound - 1, Fn: func(c *engine.Chooser) {
				k := cfg{LogN: b.logN, LogSlots: b.logSlots, CtGap: b.ctGap}
				if first >= 0 {
					axes[first].set(&k, alt)
					c.Cover("axis", fmt.Sprintf("%s=%d", axes[first].name, alt))
				} else {
					c.Cover("axis", "default")
				}
				for i := first + 1; i < len(axes) && first >= 0; i++ {
					if axes[i].name == "ctgap" && b.ctGap != 0 {
						continue
					}
					if a := c.Choose(axes[i].alts+1, axes[i].name); a != 0 {
						axes[i].set(&k, a)
					}
				}
				runFunctional(c, k)
			}}
		}
		scs = append(scs, mk(-1, 0))
		for i, ax := range axes {
			if ax.name == "ctgap" && b.ctGap != 0 {
				continue
			}
			for a := 1; a <= ax.alts; a++ {
				scs = append(scs, mk(i, a))
			}
		}
	}
	return scs
}

// copyScenarios: a ShallowCopy of a used evaluator must bootstrap like the original, for every ring relation x
// sparsity x batch size (full product; the why_tests_cant of the property names copies and batching with ring switching).
func copyScenarios(tier string) []engine.Scenario {
	var scs []engine.Scenario
	logNs := []int{8}
	if tier == "thorough" {
		logNs = []int{8, 9}
	}
	for _, logN := range logNs {
		for _, ls := range []int{2, logN - 1} {
			logN, ls := logN, ls
			scs = append(scs, engine.Scenario{Name: fmt.Sprintf("copy/N%d/s%d", logN, ls), Bound: -1, Fn: func(c *engine.Chooser) {
				k := cfg{LogN: logN, LogSlots: ls, Copy: true}
				k.Residual = c.Choose(4, "residual")
				k.CtGap = c.Choose(2, "ctgap")
				if tier == "thorough" {
					k.Batch = c.Choose(3, "batch")
				} else {
					k.Batch = 2 * c.Choose(2, "batch") // one ciphertext, three ciphertexts
				}
				c.Cover("axis", "copy")
				runFunctional(c, k)
			}})
		}
	}
	return scs
}

func scenarios(tier string) []engine.Scenario {
	var scs []engine.Scenario
	scs = append(scs, defaultScenarios(tier)...)
	scs = append(scs, functionalScenarios(tier)...)
	scs = append(scs, copyScenarios(tier)...)
	scs = append(scs, announcedScenarios(tier)...)
	scs = append(scs, reportedScenarios(tier)...)
	scs = append(scs, sequenceScenarios(tier)...)
	scs = append(scs, restoreScenarios(tier)...)
	scs = append(scs, dftScenarios(tier)...)
	scs = append(scs, mod1Scenarios(tier)...)
	scs = append(scs, thresholdScenarios(tier)...)
	return balance(tier, scs) // cheapest first (re-run window of the determinism gate), most expensive last

}

func main() {
	quickBudget, thoroughBudget := 150*time.Second, 25*time.Minute
	if os.Getenv("VERIF_C18_CALIBRATE") != "" || os.Getenv("VERIF_C18_NOBUDGET") != "" {
		// recording runs must visit every leaf, however loaded the machine is
		quickBudget, thoroughBudget = 6*time.Hour, 6*time.Hour
	}
	engine.Main(engine.Check{
		ID:    "C18",
		Level: "exploration",
		Rule: "One leaf = one parameter set instantiated through the public constructors with freshly generated keys. " +
			"Item 1: every exported default literal at LogN 8..10 and every reduced configuration: levels of every polynomial of every generated key, Galois set == advertised set, key requests recorded during a real bootstrap. " +
			"Item 2: configurations within a deviation bound of the ordinary one over 14 option axes x (LogN, LogSlots) bases (quick: <=1 deviation on every base of LogN 8,9 and <=2 on the fully packed and the single-slot base of LogN 8; thorough: <=2 on every base of LogN 8, 9 and 10), plus the full product ring relation x sparsity x batch size on a ShallowCopy; one batch of ciphertexts with pairwise distinct slot values each. " +
			"Item 3: CoeffsToSlots∘SlotsToCoeffs for every depth split x slot count, mod1 evaluator on a grid of its interval for every literal option. " +
			"Announced quantities (announced.go): the key bundle built by the harness with the public generators from exactly the announced lists (ring relation x encapsulation x packing) must be accepted, bootstrap to the calibrated precision, and be refused once any announced Galois key is removed; Galois set of GenEvaluationKeys == Parameters.GaloisElements as sets; the circuit run stage by stage must consume per stage what DepthCoeffsToSlots/DepthEvalMod/DepthSlotsToCoeffs report (every DFT split pair, every mod1 option), Depth/OutputLevel/LogMaxSlots/BitConsumption against the generated chain, an input at MinimumInputLevel with a non-power-of-two scale against the same input at the default scale. " +
			"distinct_nontrivial counts distinct (configuration, observed precision/levels) classes.",
		Assumptions: []string{
			"reduced rings (LogN 6..10) with the test suite's size-reduction recipe (LogQ {60,40}, LogP {61}, LogMessageRatio raised by 16-LogN) stand in for the shipped LogN 15/16 sets; the shipped sizes themselves are not executed",
			"precision bounds are calibrated: checks/c18/calibration.json holds the worst-slot precision measured on the unmodified tree (min over VERIF_SEED 1..5); the oracle demands that value minus 6 bits. A uniform degradation present when the table was produced is baked in",
			"without sparse-secret encapsulation the harness chooses K so that the ModUp overflow |I| < K-1 holds with probability > 1-2^-40 for the secret's Hamming weight (hard bound (h+1)/2 when smaller); the library default K=16 is only used with the H=32 ephemeral secret",
			"input at level 0 has the default power-of-two scale (Evaluate's documented precondition); |message| <= 1",
			"EvkDenseToSparse is the key protected only by the ephemeral secret (keys.go: generated by the sparse key generator with skSparse as output key)",
		},
		Scenarios:      scenarios,
		QuickBudget:    quickBudget,
		ThoroughBudget: thoroughBudget,
		Expect: func(tier string) []string {
			e := []string{"axis=default", "axis=copy", "axis=announced-keys", "reported=depths", "mod1=sine-ignored-double-angle", "reported=staged", "reported=minimum-input-level", "seq=first=full", "restored=conjugate-invariant", "restored=ring-degree-switch", "restored=writeto-into-used", "restored=marshal-into-fresh", "seq=second=batch3-sparser-small", "seq=first=evalmod-scaled-0.5", "seq=second=evalmod-scaled-2i", "seq=res0", "seq=res1", "seq=res2", "calibration=hit", "dft=sparse=true", "dft=sparse=false",
				"mod1type=0", "mod1type=1", "mod1type=2", "mod1da=0", "mod1da=1", "mod1da=2", "mod1da=3", "mod1inv=0", "mod1inv=5", "mod1inv=7",
				"default=DefaultParametersSparse[0]", "default=DefaultParametersDense[0]", "defaultLogN=8", "defaultLogN=9", "defaultLogN=10", "defaultLogN=11",
				"keys=all-generated-keys-requested", "rejected=constructor-error", "encaps=on", "encaps=off", "ringkeys=none", "ringkeys=degree-switch", "ringkeys=conjugate-invariant",
				"api=Bootstrap", "api=BootstrapMany", "logN=8", "logN=9", "ctLogSlots=0", "ctLogSlots=1", "ctLogSlots=2", "ctLogSlots=full", "ctLogSlots=half"}
			for _, ax := range axes {
				for a := 1; a <= ax.alts; a++ {
					e = append(e, fmt.Sprintf("axis=%s=%d", ax.name, a))
				}
			}
			return e
		},
	})
}
