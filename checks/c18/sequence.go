package main

import (
	"fmt"

	"github.com/tuneinsight/lattigo/v6/circuits/ckks/bootstrapping"
	"github.com/tuneinsight/lattigo/v6/core/rlwe"
	"github.com/tuneinsight/lattigo/v6/ring"
	"github.com/tuneinsight/lattigo/v6/schemes/ckks"

	"verif/engine"
	"verif/uni"
)

// State carried between calls on one evaluator (scratch buffers, hoisting buffers, the automorphism index map, the
// buffers of the DFT / polynomial / mod-1 sub-evaluators): the bootstrapping circuit is deterministic once the keys
// and the input ciphertext are fixed, so bootstrapping B on an evaluator that has just bootstrapped A must return
// *bit-identical* ciphertexts to bootstrapping B on a freshly created evaluator (same keys) and on a ShallowCopy.
// This oracle needs no calibration and holds whether or not the result is precise.

// seqKind is one shape of call.
type seqKind struct {
	name  string
	n     int // number of ciphertexts
	gap   int // ciphertext LogSlots = max - gap
	level int
	small bool
	// scaled != 0: not a bootstrap but the circuit up to the modular reduction with EvalModAndScale(ct, scaled)
	// (ScaleDown, ModUp, CoeffsToSlots, EvalModAndScale on the real and the imaginary half): the rarely used entry
	// point that personalises the mod-1 polynomial per call. Same-ring configurations only.
	scaled complex128
}

var seqKinds = []seqKind{
	{"full", 1, 0, 0, false, 0},
	{"sparse", 1, 2, 0, false, 0},
	{"level1", 1, 0, 1, false, 0},
	{"batch2-sparse", 2, 1, 0, false, 0},
	{"batch3-sparser-small", 3, 2, 0, true, 0},
	{"evalmod-scaled-0.5", 1, 0, 0, false, 0.5},
	{"evalmod-scaled-2i", 1, 0, 0, false, 2i},
}

func sameCiphertexts(a, b []rlwe.Ciphertext) string {
	if len(a) != len(b) {
		return fmt.Sprintf("%d vs %d ciphertexts", len(a), len(b))
	}
	for i := range a {
		x, y := &a[i], &b[i]
		if x.Level() != y.Level() || x.Degree() != y.Degree() || !x.Scale.Equal(y.Scale) || x.LogDimensions != y.LogDimensions || x.IsNTT != y.IsNTT {
			return fmt.Sprintf("ciphertext %d: metadata differs (level %d/%d, scale 2^%.3f/2^%.3f, dims %v/%v)", i, x.Level(), y.Level(), x.Scale.Log2(), y.Scale.Log2(), x.LogDimensions, y.LogDimensions)
		}
		for d := range x.Value {
			for l := 0; l <= x.Level(); l++ {
				for j := range x.Value[d].Coeffs[l] {
					if x.Value[d].Coeffs[l][j] != y.Value[d].Coeffs[l][j] {
						return fmt.Sprintf("ciphertext %d: component %d, prime %d, coefficient %d differs", i, d, l, j)
					}
				}
			}
		}
	}
	return ""
}

func sequenceScenario(logN, residual int, first seqKind) engine.Scenario {
	name := fmt.Sprintf("seq/N%d/res%d/first=%s", logN, residual, first.name)
	return engine.Scenario{Name: name, Bound: -1, Fn: func(c *engine.Chooser) {
		kinds := seqKinds
		if residual != 0 {
			kinds = seqKinds[:5] // the partial circuit is driven on the bootstrapping ring directly
		}
		second := kinds[c.Choose(len(kinds), "second")]
		uni.Seed(c, name, second.name)
		k := cfg{LogN: logN, LogSlots: logN - 1, Residual: residual}
		resLit, btpLit := k.literals()
		s, rejected := build(c, name, resLit, btpLit, nil, false)
		if c.Failed() {
			return
		}
		if rejected != "" {
			panic("harness: sequence configuration rejected: " + rejected)
		}
		res := s.res
		realOnly := res.RingType() == ring.ConjugateInvariant
		ecd := ckks.NewEncoder(res)
		enc := rlwe.NewEncryptor(res, s.sk)
		mk := func(kd seqKind, salt int) []rlwe.Ciphertext {
			ctLog := k.ctLogSlots() - kd.gap
			amp := 1.0
			if kd.small {
				amp = 1.0 / 256
			}
			lvl := kd.level
			if lvl > res.MaxLevel() {
				lvl = res.MaxLevel()
			}
			cts := make([]rlwe.Ciphertext, kd.n)
			for j := range cts {
				pt := ckks.NewPlaintext(res, lvl)
				pt.LogDimensions = ring.Dimensions{Rows: 0, Cols: ctLog}
				if err := ecd.Encode(message(1<<ctLog, j+salt, amp, realOnly), pt); err != nil {
					panic("harness: " + err.Error())
				}
				ct, err := enc.EncryptNew(pt)
				if err != nil {
					panic("harness: " + err.Error())
				}
				cts[j] = *ct
			}
			return cts
		}
		clone := func(in []rlwe.Ciphertext) []rlwe.Ciphertext {
			out := make([]rlwe.Ciphertext, len(in))
			for i := range in {
				out[i] = *in[i].CopyNew()
			}
			return out
		}
		// inputs that hit a recorded defect (packing above level 0, conjugate-invariant sparse input) still must behave
		// the same on every evaluator: errors and panics are compared as outcomes too
		var current seqKind
		run := func(ev *bootstrapping.Evaluator, in []rlwe.Ciphertext) (out []rlwe.Ciphertext, outcome string) {
			kd := current
			_, p := uni.Try(func() error {
				var err error
				if kd.scaled == 0 {
					if out, err = ev.BootstrapMany(clone(in)); err != nil {
						outcome = "error: " + err.Error()
					}
					return nil
				}
				ct := in[0].CopyNew()
				if ct, _, err = ev.ScaleDown(ct); err == nil {
					if ct, err = ev.ModUp(ct); err == nil {
						var re, im *rlwe.Ciphertext
						if re, im, err = ev.CoeffsToSlots(ct); err == nil {
							for _, half := range []*rlwe.Ciphertext{re, im} {
								if half == nil || err != nil {
									continue
								}
								var o *rlwe.Ciphertext
								if o, err = ev.EvalModAndScale(half, kd.scaled); err == nil {
									out = append(out, *o)
								}
							}
						}
					}
				}
				if err != nil {
					outcome = "error: " + err.Error()
				}
				return nil
			})
			if p != nil {
				outcome = fmt.Sprintf("panic: %v", p)
			}
			return
		}
		a, b := mk(first, 10), mk(second, 20)
		used := s.eval
		current = first
		run(used, a)
		current = second
		gotUsed, oUsed := run(used, b)
		fresh, err := bootstrapping.NewEvaluator(s.btp, s.evk)
		if err != nil {
			panic("harness: " + err.Error())
		}
		gotFresh, oFresh := run(fresh, b)
		cp := used.ShallowCopy()
		// "all the read-only data-structures are shared with the receiver and the temporary buffers are reallocated. The
		// receiver and the returned Evaluator can be used concurrently" (ShallowCopy doc): every sub-evaluator of the copy
		// must therefore run on the copy's own ckks.Evaluator (whose buffers are fresh), none on the receiver's.
		for _, sub := range []struct {
			name string
			ev   *ckks.Evaluator
		}{{"DFTEvaluator", cp.DFTEvaluator.Evaluator}, {"Mod1Evaluator", cp.Mod1Evaluator.Evaluator}} {
			if sub.ev != cp.Evaluator || sub.ev == used.Evaluator {
				c.Fail("C18/copy/ShallowCopy-sub-evaluator-runs-on-receiver-buffers", "%s: copy.%s is built on %s", name, sub.name,
					map[bool]string{true: "the receiver's ckks.Evaluator", false: "an evaluator that is not the copy's own"}[sub.ev == used.Evaluator])
			}
		}
		if cp.Evaluator == used.Evaluator || cp.Evaluator.Evaluator == used.Evaluator.Evaluator || cp.Evaluator.GetBuffCt() == used.Evaluator.GetBuffCt() {
			c.Fail("C18/copy/ShallowCopy-shares-evaluator-buffers", "%s: the copy's ckks/rlwe evaluator or its BuffCt is the receiver's", name)
		}
		gotCopy, oCopy := run(cp, b)
		gotAgain, oAgain := run(used, b)
		tag := fmt.Sprintf("%s then %s", first.name, second.name)
		c.Cover("seq", "first="+first.name)
		c.Cover("seq", "second="+second.name)
		c.Cover("seq", fmt.Sprintf("res%d", residual))
		if oUsed != oFresh {
			c.Fail("C18/seq/used-evaluator-differs-from-fresh", "%s: %s: used evaluator: %q, fresh evaluator: %q", name, tag, oUsed, oFresh)
			return
		}
		if oFresh == "" {
			if d := sameCiphertexts(gotUsed, gotFresh); d != "" {
				c.Fail("C18/seq/used-evaluator-differs-from-fresh", "%s: %s: %s", name, tag, d)
			}
			if d := sameCiphertexts(gotAgain, gotFresh); d != "" || oAgain != "" {
				c.Fail("C18/seq/repeated-call-differs", "%s: %s (third call on the same evaluator): %s %s", name, tag, d, oAgain)
			}
		}
		// the copy of a ring-degree-switching evaluator is the subject of a recorded defect (FINDINGS 2): its own signature
		if oCopy != oFresh || (oFresh == "" && sameCiphertexts(gotCopy, gotFresh) != "") {
			sig := "C18/seq/shallow-copy-differs-from-fresh"
			if (residual == 1 || residual == 3) && second.n > 1 && second.gap > 0 {
				sig = sigCopyN1
			}
			c.Fail(sig, "%s: %s: ShallowCopy: %q %s, fresh: %q", name, tag, oCopy, sameCiphertexts(gotCopy, gotFresh), oFresh)
		}
		c.Count(5)
		c.Outcome(name, second.name, oFresh)
	}}
}

func sequenceScenarios(tier string) []engine.Scenario {
	var scs []engine.Scenario
	logNs := []int{8}
	if tier == "thorough" {
		logNs = []int{8, 9}
	}
	for _, n := range logNs {
		for _, r := range []int{0, 1, 2} {
			for _, f := range seqKinds {
				if f.scaled != 0 && r != 0 {
					continue
				}
				scs = append(scs, sequenceScenario(n, r, f))
			}
		}
	}
	return scs
}
