package main

import (
	"fmt"
	"math"
	"strings"

	"github.com/tuneinsight/lattigo/v6/circuits/ckks/bootstrapping"
	"github.com/tuneinsight/lattigo/v6/core/rlwe"
	"github.com/tuneinsight/lattigo/v6/ring"
	"github.com/tuneinsight/lattigo/v6/schemes/ckks"
	"github.com/tuneinsight/lattigo/v6/utils"
	"github.com/tuneinsight/lattigo/v6/utils/bignum"

	"verif/engine"
	"verif/uni"
)

// defaultEntry is one exported default literal of circuits/ckks/bootstrapping/default_parameters.go.
type defaultEntry struct {
	name   string
	scheme ckks.ParametersLiteral
	btp    bootstrapping.ParametersLiteral
}

// defaultCatalogue lists the members of the exported slices in order (a set appended to DefaultParametersSparse /
// DefaultParametersDense upstream is picked up automatically; the names are positional on purpose).
func defaultCatalogue() []defaultEntry {
	var r []defaultEntry
	for i, d := range bootstrapping.DefaultParametersSparse {
		r = append(r, defaultEntry{fmt.Sprintf("DefaultParametersSparse[%d]", i), d.SchemeParams, d.BootstrappingParams})
	}
	for i, d := range bootstrapping.DefaultParametersDense {
		r = append(r, defaultEntry{fmt.Sprintf("DefaultParametersDense[%d]", i), d.SchemeParams, d.BootstrappingParams})
	}
	return r
}

// reduce re-instantiates a shipped literal at a small ring degree, all other fields kept. The only adaptation is the
// one the literal's own documentation implies: a "H = N/2" main secret keeps being N/2 (H=32768 does not exist in a
// ring of degree 256), and a sparse H=192 secret is capped at N/2 for the same reason.
func (d defaultEntry) reduce(logN int) (ckks.ParametersLiteral, bootstrapping.ParametersLiteral) {
	s, b := d.scheme, d.btp
	if t, ok := s.Xs.(ring.Ternary); ok && t.H > 0 {
		if t.H >= 1<<(d.scheme.LogN-1) {
			t.H = 1 << (logN - 1)
		} else if t.H > 1<<(logN-1) {
			t.H = 1 << (logN - 1)
		}
		s.Xs = t
		b.Xs = t
	}
	s.LogN = logN
	b.LogN = utils.Pointy(logN)
	return s, b
}

// defaultScenario: key confinement + a real bootstrap with recorded key requests for one shipped literal at one LogN.
func defaultScenario(d defaultEntry, logN int, bootstrap bool) engine.Scenario {
	name := fmt.Sprintf("default/%s/N%d", d.name, logN)
	return engine.Scenario{Name: name, Bound: -1, Fn: func(c *engine.Chooser) {
		if recordingSkipsID(fmt.Sprintf("default/%s/N%d", d.name, logN), name) {
			return
		}
		uni.Seed(c, name)
		resLit, btpLit := d.reduce(logN)
		// the test suite's correction for the reduced ring (evaluator_test.go): raise the message ratio by
		// min(max(15-LogSlots,0),8) after construction so that precision stays comparable
		// ... as far as Q[0]/scale leaves room for it (ScaleDown refuses a ratio above 2·Q[0]/scale: the N15 sets have
		// Q[0]/scale = 2^8 = their message ratio already)
		adjust := func(p *bootstrapping.Parameters) {
			room := p.ResidualParameters.LogQi()[0] - p.ResidualParameters.LogDefaultScale() - p.Mod1ParametersLiteral.LogMessageRatio
			p.Mod1ParametersLiteral.LogMessageRatio += utils.Max(0, utils.Min(room, utils.Min(utils.Max(15-p.LogMaxSlots(), 0), 8)))
		}
		known := ""
		if multiMatrixLevel(btpLit.CoeffsToSlotsFactorizationDepthAndLogScales) || multiMatrixLevel(btpLit.SlotsToCoeffsFactorizationDepthAndLogScales) {
			known = sigMultiMatrixLevel
			c.Cover("default", "multi-matrix-level-split")
		}
		fail := func(sig, format string, args ...interface{}) {
			if known != "" {
				sig = known
			}
			c.Fail(sig, format, args...)
		}
		s, rejected := build(c, name, resLit, btpLit, adjust, false)
		c.Cover("default", d.name)
		c.Cover("defaultLogN", fmt.Sprint(logN))
		if c.Failed() {
			return
		}
		if rejected != "" {
			c.Fail("C18/default/shipped-literal-rejected-on-reduced-ring", "%s: %s", name, rejected)
			return
		}
		if !bootstrap {
			c.Outcome(name, "keys-only")
			return
		}
		res := s.res
		slots := 1 << s.btp.LogMaxSlots()
		if m := res.MaxSlots(); slots > m {
			slots = m
		}
		logSlots := int(math.Log2(float64(slots)))
		want := message(slots, 0, 1, false)
		pt := ckks.NewPlaintext(res, 0)
		pt.LogDimensions = ring.Dimensions{Rows: 0, Cols: logSlots}
		ecd := ckks.NewEncoder(res)
		if err := ecd.Encode(want, pt); err != nil {
			panic(fmt.Sprintf("harness: encode: %v", err))
		}
		ct, err := rlwe.NewEncryptor(res, s.sk).EncryptNew(pt)
		if err != nil {
			panic(fmt.Sprintf("harness: encrypt: %v", err))
		}
		out, err := s.eval.Bootstrap(ct)
		checkRequests(c, name, s.rec)
		if err != nil {
			fail("C18/default/bootstrap-error", "%s: %v", name, err)
			return
		}
		if out.Level() != s.eval.OutputLevel() {
			fail("C18/default/output-level", "%s: output at level %d, OutputLevel()=%d", name, out.Level(), s.eval.OutputLevel())
		}
		if !out.Scale.Equal(res.DefaultScale()) {
			fail("C18/default/output-scale", "%s: scale 2^%.6f, default 2^%.6f", name, out.Scale.Log2(), res.DefaultScale().Log2())
		}
		have := make([]*bignum.Complex, slots)
		if err := ecd.Decode(rlwe.NewDecryptor(res, s.sk).DecryptNew(out), have); err != nil {
			fail("C18/default/decode-error", "%s: %v", name, err)
			return
		}
		bits := precisionBits(want, have)
		judgePrecision(c, "default", fmt.Sprintf("%s/N%d", d.name, logN), bits, known)
		c.Outcome(name, int(bits))
	}}
}

// thresholdScenarios: the prime layout of the shipped N15 sets (every residual prime well below 60 bits, a 60-bit
// SlotsToCoeffs prime on top of them) with the homomorphic decoding evaluated as ONE matrix of 2^10 slots, i.e. more
// than 30 baby steps accumulated lazily at a level whose prime is larger than every prime below it. Overflow margins,
// lazy-reduction counters and baby-step/giant-step splits that are right for the small shapes of the other scenarios
// can only go wrong past this size (a few seconds per leaf).
func thresholdScenarios(tier string) []engine.Scenario {
	var scs []engine.Scenario
	for _, d := range defaultCatalogue() {
		// the two N15 sets: positions 3 of the sparse and of the dense slice
		if d.scheme.LogN != 15 {
			continue
		}
		if tier == "quick" && !strings.Contains(d.name, "Dense") {
			continue // ~6 s per leaf: one of the two in the quick tier
		}
		d.name += "+S2C-one-60-bit-matrix"
		d.btp.SlotsToCoeffsFactorizationDepthAndLogScales = [][]int{{60}}
		scs = append(scs, defaultScenario(d, 11, true))
	}
	return scs
}

func defaultScenarios(tier string) []engine.Scenario {
	var scs []engine.Scenario
	for _, d := range defaultCatalogue() {
		for _, logN := range []int{8, 9, 10} {
			// keys are checked at every LogN; the bootstrap itself is executed at LogN 8 (quick) / 8..10 (thorough)
			scs = append(scs, defaultScenario(d, logN, logN == 8 || tier == "thorough"))
		}
	}
	return scs
}
