package main

import (
	"fmt"
	"math"
	"math/big"
	"sort"

	"github.com/tuneinsight/lattigo/v6/circuits/ckks/bootstrapping"
	"github.com/tuneinsight/lattigo/v6/core/rlwe"
	"github.com/tuneinsight/lattigo/v6/ring"
	"github.com/tuneinsight/lattigo/v6/schemes/ckks"
	"github.com/tuneinsight/lattigo/v6/utils/bignum"

	"verif/engine"
	"verif/uni"
)

// Reported quantities trusted by the caller.
//
// Everything the bootstrapping API announces about itself is used by the harness *instead of* the helper that would
// normally hide it, and the outcome must be the one the helper gives:
//
//   - announcedKeys: the key bundle built with the public rlwe generators from the announced lists only (Galois keys for
//     exactly Parameters.GaloisElements, relinearization key, ring-switch keys, encapsulation keys): NewEvaluator must
//     accept it, a bootstrap must reach the calibrated precision of the same configuration, NewEvaluator must refuse
//     the same bundle with any one announced Galois key removed (its documented completeness check);
//   - reported depths: the circuit is run stage by stage and every stage must consume exactly the number of levels
//     its getter reports (DepthCoeffsToSlots, DepthEvalMod, DepthSlotsToCoeffs, Depth, Evaluator.Depth, OutputLevel);
//   - BitConsumption of the literal against the moduli the parameters actually add on top of the residual chain;
//   - MinimumInputLevel: an input at exactly that level whose scale is not a power of two is bootstrapped
//     (Evaluate: "if the input ciphertext is at level one or more, the input scale does not need to be an exact
//     power of two");
//   - LogMaxSlots: a ciphertext with exactly that many slots is accepted (it is the literal's LogSlots).

// announcedKeys mirrors the documented content of GenEvaluationKeys using announced quantities and public
// generators only.
func announcedKeys(p bootstrapping.Parameters, skN1 *rlwe.SecretKey) (*bootstrapping.EvaluationKeys, *rlwe.SecretKey) {
	pN2 := p.BootstrappingParameters
	kgen := rlwe.NewKeyGenerator(pN2)
	evk := &bootstrapping.EvaluationKeys{}
	var skN2 *rlwe.SecretKey
	if p.ResidualParameters.N() != pN2.N() {
		skN2 = kgen.GenSecretKeyNew()
		if p.ResidualParameters.RingType() == ring.ConjugateInvariant {
			evk.EvkCmplxToReal, evk.EvkRealToCmplx = kgen.GenEvaluationKeysForRingSwapNew(skN2, skN1)
		} else {
			evk.EvkN1ToN2 = kgen.GenEvaluationKeyNew(skN1, skN2)
			evk.EvkN2ToN1 = kgen.GenEvaluationKeyNew(skN2, skN1)
		}
	} else {
		// same ring: the same secret over the longer chains
		rQ, rP := pN2.RingQ(), pN2.RingP()
		skN2 = rlwe.NewSecretKey(pN2)
		buff := rQ.NewPoly()
		rlwe.ExtendBasisSmallNormAndCenterNTTMontgomery(rQ, rQ, skN1.Value.Q, buff, skN2.Value.Q)
		rlwe.ExtendBasisSmallNormAndCenterNTTMontgomery(rQ, rP, skN1.Value.Q, buff, skN2.Value.P)
	}
	if p.EphemeralSecretWeight > 0 {
		// https://eprint.iacr.org/2022/024: the sparse secret lives at Q[0]·P[0] only
		pSparse, err := rlwe.NewParametersFromLiteral(rlwe.ParametersLiteral{LogN: pN2.LogN(), Q: pN2.Q()[:1], P: pN2.P()[:1], NTTFlag: true})
		if err != nil {
			panic("harness: " + err.Error())
		}
		kgenSparse := rlwe.NewKeyGenerator(pSparse)
		skSparse := kgenSparse.GenSecretKeyWithHammingWeightNew(p.EphemeralSecretWeight)
		evk.EvkDenseToSparse = kgenSparse.GenEvaluationKeyNew(skN2, skSparse)
		evk.EvkSparseToDense = kgen.GenEvaluationKeyNew(skSparse, skN2)
	}
	rlk := kgen.GenRelinearizationKeyNew(skN2)
	gks := kgen.GenGaloisKeysNew(p.GaloisElements(pN2), skN2) // exactly the announced list
	evk.MemEvaluationKeySet = rlwe.NewMemEvaluationKeySet(rlk, gks...)
	return evk, skN2
}

// checkCompleteness: NewEvaluator "checks if all the necessary keys are present": the announced bundle minus any one
// announced Galois key (the conjugation, the smallest and the largest element are tried) must be refused.
func checkCompleteness(c *engine.Chooser, tag string, p bootstrapping.Parameters, evk *bootstrapping.EvaluationKeys) {
	pN2 := p.BootstrappingParameters
	list := append([]uint64{}, p.GaloisElements(pN2)...)
	sort.Slice(list, func(i, j int) bool { return list[i] < list[j] })
	if len(list) == 0 {
		c.Fail("C18/announced/GaloisElements-empty", "%s: Parameters.GaloisElements is empty", tag)
		return
	}
	drop := map[uint64]string{pN2.GaloisElementForComplexConjugation(): "conjugation", list[0]: "smallest", list[len(list)-1]: "largest"}
	rlk, _ := evk.GetRelinearizationKey()
	for _, g := range sortedKeysU64(drop) {
		var gks []*rlwe.GaloisKey
		for _, h := range evk.GetGaloisKeysList() {
			if h == g {
				continue
			}
			k, _ := evk.GetGaloisKey(h)
			gks = append(gks, k)
		}
		less := *evk
		less.MemEvaluationKeySet = rlwe.NewMemEvaluationKeySet(rlk, gks...)
		var err error
		_, panicked := uni.Try(func() error { _, err = bootstrapping.NewEvaluator(p, &less); return nil })
		if panicked != nil {
			c.Fail("C18/announced/NewEvaluator-panics-on-incomplete-keys", "%s: Galois key %d (%s) removed: panic: %v", tag, g, drop[g], panicked)
		} else if err == nil {
			c.Fail("C18/announced/NewEvaluator-accepts-incomplete-keys", "%s: the key set lacks the Galois key %d (%s) that the circuit uses, NewEvaluator accepted it", tag, g, drop[g])
		}
	}
}

func sortedKeysU64(m map[uint64]string) []uint64 {
	r := make([]uint64, 0, len(m))
	for k := range m {
		r = append(r, k)
	}
	sort.Slice(r, func(i, j int) bool { return r[i] < r[j] })
	return r
}

// announcedScenarios: residual ring relation x encapsulation x (fully packed, sparse) with the keys built by the harness.
func announcedScenarios(tier string) []engine.Scenario {
	var scs []engine.Scenario
	logNs := []int{8}
	if tier == "thorough" {
		logNs = []int{8, 9}
	}
	for _, logN := range logNs {
		for _, ls := range []int{2, logN - 1} {
			logN, ls := logN, ls
			scs = append(scs, engine.Scenario{Name: fmt.Sprintf("announced/keys/N%d/s%d", logN, ls), Bound: -1, Fn: func(c *engine.Chooser) {
				k := cfg{LogN: logN, LogSlots: ls, Announced: true}
				k.Residual = c.Choose(4, "residual")
				k.NoEncaps = c.Bool("noencaps")
				if tier == "thorough" {
					k.Batch = c.Choose(2, "batch")
					k.Dense = c.Bool("dense")
				}
				c.Cover("axis", "announced-keys")
				runFunctional(c, k)
			}})
		}
	}
	return scs
}

// ---------------------------------------------------------------------------------------------------------------------
// reported depths / levels / bit consumption / minimum input level

func reportedScenarios(tier string) []engine.Scenario {
	var scs []engine.Scenario
	logNs := []int{6}
	if tier == "thorough" {
		logNs = []int{6, 8}
	}
	thorough := tier == "thorough"
	for _, logN := range logNs {
		logN := logN
		ls := logN - 1
		// one scenario per first option: a scenario is the unit of work of a worker
		for c2s := range c2sSplits {
			c2s := c2s
			scs = append(scs, engine.Scenario{Name: fmt.Sprintf("announced/reported/N%d/dft/c2s%d", logN, c2s), Bound: -1, Fn: func(c *engine.Chooser) {
				k := cfg{LogN: logN, LogSlots: ls, C2S: c2s}
				k.S2C = c.Choose(len(s2cSplits), "s2c")
				if thorough {
					k.Residual = c.Choose(2, "residual")
				}
				runReported(c, k, thorough)
			}})
		}
		for m := 0; m < 3; m++ {
			m := m
			scs = append(scs, engine.Scenario{Name: fmt.Sprintf("announced/reported/N%d/mod1/type%d", logN, m), Bound: -1, Fn: func(c *engine.Chooser) {
				k := cfg{LogN: logN, LogSlots: ls, Mod1: m}
				k.DblAngle = c.Choose(4, "dblangle")
				if thorough {
					k.ArcSine = c.Choose(3, "arcsine")
					k.Iter = c.Choose(2, "iter") * 2 // none, one iteration with a reserved prime (static oracles only)
				} else {
					k.ArcSine = c.Choose(2, "arcsine")
				}
				if k.Mod1 == 1 && k.DblAngle > 1 {
					c.Skip("double angle with the sine: documented refusal")
					return
				}
				runReported(c, k, thorough)
			}})
		}
		scs = append(scs, engine.Scenario{Name: fmt.Sprintf("announced/reported/N%d/slots", logN), Bound: -1, Fn: func(c *engine.Chooser) {
			k := cfg{LogN: logN, LogSlots: 1 + c.Choose(logN-1, "logslots")}
			k.NoEncaps = c.Bool("noencaps")
			runReported(c, k, true)
		}})
	}
	return scs
}

const sigScaleMatching = "C18/reported/non-power-of-two-scale-at-MinimumInputLevel-loses-precision"

const sigDepthSwapped = "C18/reported/DepthCoeffsToSlots-and-DepthSlotsToCoeffs-swapped"

func log2Big(x *big.Int) float64 {
	f := new(big.Float).SetInt(x)
	m := new(big.Float)
	e := f.MantExp(m)
	mf, _ := m.Float64()
	return float64(e) + math.Log2(mf)
}

func runReported(c *engine.Chooser, k cfg, minLevel bool) {
	key := k.key()
	uni.Seed(c, "reported", key)
	resLit, btpLit := k.literals()
	s, rejected := build(c, key, resLit, btpLit, nil, false)
	if c.Failed() {
		return
	}
	if rejected != "" {
		c.Fail("C18/func/legal-configuration-refused", "%s: %s", key, rejected)
		return
	}
	p, ev, res := s.btp, s.eval, s.res
	pN2 := p.BootstrappingParameters
	_, reserved := k.iterations()
	extra := 0
	if reserved != 0 {
		extra = 1
	}
	c.Cover("reported", "depths")

	// (1) static coherence of the announced numbers
	if p.LogMaxSlots() != k.LogSlots || p.LogMaxDimensions().Cols != k.LogSlots || p.LogMaxDimensions().Rows != 0 {
		c.Fail("C18/reported/LogMaxSlots", "%s: LogMaxSlots()=%d LogMaxDimensions()=%v, literal LogSlots=%d", key, p.LogMaxSlots(), p.LogMaxDimensions(), k.LogSlots)
	}
	if p.Depth() != p.DepthCoeffsToSlots()+p.DepthEvalMod()+p.DepthSlotsToCoeffs() {
		c.Fail("C18/reported/Depth-not-the-sum-of-the-stages", "%s: Depth()=%d, stages %d+%d+%d", key, p.Depth(), p.DepthCoeffsToSlots(), p.DepthEvalMod(), p.DepthSlotsToCoeffs())
	}
	if ev.Depth() != pN2.MaxLevel()-res.MaxLevel() || ev.Depth() != p.Depth()+extra {
		c.Fail("C18/reported/Evaluator.Depth", "%s: Evaluator.Depth()=%d, Parameters.Depth()=%d (+%d reserved prime), chain difference %d", key, ev.Depth(), p.Depth(), extra, pN2.MaxLevel()-res.MaxLevel())
	}
	if ev.OutputLevel() != res.MaxLevel() {
		c.Fail("C18/reported/OutputLevel", "%s: OutputLevel()=%d, residual MaxLevel()=%d", key, ev.OutputLevel(), res.MaxLevel())
	}
	// the bootstrapping chain starts with the residual chain (the output is read by the residual parameters)
	for i, q := range res.Q() {
		if pN2.Q()[i] != q {
			c.Fail("C18/reported/residual-chain-not-a-prefix", "%s: Q[%d]=%d in the bootstrapping parameters, %d in the residual ones", key, i, pN2.Q()[i], q)
			return
		}
	}

	// (2) BitConsumption of the literal ("rounded up and thus will overestimate the value by up to 1 bit") against the
	// primes actually added on top of the residual chain. Each generated prime is within 2^-20 relative of 2^bits at
	// these sizes (NTT-friendly primes next to the power of two), a whole chain within 0.01 bit.
	if bc, err := btpLit.BitConsumption(k.LogSlots); err != nil {
		c.Fail("C18/reported/BitConsumption-error", "%s: %v", key, err)
	} else {
		actual := log2Big(pN2.QBigInt()) - log2Big(res.QBigInt())
		c.Logf("%s: BitConsumption=%d actual=%.4f", key, bc, actual)
		if actual > float64(bc)+0.01 || actual < float64(bc)-1-0.01 {
			c.Fail("C18/reported/BitConsumption", "%s: BitConsumption(%d)=%d bits, the bootstrapping chain adds %.3f bits to the residual one (announced: overestimates by up to 1 bit)", key, k.LogSlots, bc, actual)
		}
	}

	// (3) the circuit stage by stage, levels scheduled from the reported depths
	realOnly := res.RingType() == ring.ConjugateInvariant
	if realOnly {
		return
	}
	ctLog := k.ctLogSlots()
	ecd := ckks.NewEncoder(res)
	enc := rlwe.NewEncryptor(res, s.sk)
	dec := rlwe.NewDecryptor(res, s.sk)
	want := message(1<<ctLog, 0, 1, false)
	mkct := func(level int, scaleFactor float64) *rlwe.Ciphertext {
		pt := ckks.NewPlaintext(res, level)
		pt.LogDimensions = ring.Dimensions{Rows: 0, Cols: ctLog}
		if scaleFactor != 1 {
			pt.Scale = pt.Scale.Mul(rlwe.NewScale(scaleFactor))
		}
		if err := ecd.Encode(want, pt); err != nil {
			panic("harness: " + err.Error())
		}
		ct, err := enc.EncryptNew(pt)
		if err != nil {
			panic("harness: " + err.Error())
		}
		return ct
	}
	if res.N() == pN2.N() && k.Iter == 0 {
		ct := mkct(0, 1)
		var lv [4]int
		var err error
		stage := "ScaleDown"
		_, panicked := uni.Try(func() error {
			if ct, _, err = ev.ScaleDown(ct); err != nil {
				return nil
			}
			stage = "ModUp"
			if ct, err = ev.ModUp(ct); err != nil {
				return nil
			}
			lv[0] = ct.Level()
			stage = "CoeffsToSlots"
			var re, im *rlwe.Ciphertext
			if re, im, err = ev.CoeffsToSlots(ct); err != nil {
				return nil
			}
			lv[1] = re.Level()
			stage = "EvalMod"
			if re, err = ev.EvalMod(re); err != nil {
				return nil
			}
			if im != nil {
				if im, err = ev.EvalMod(im); err != nil {
					return nil
				}
			}
			lv[2] = re.Level()
			stage = "SlotsToCoeffs"
			if ct, err = ev.SlotsToCoeffs(re, im); err != nil {
				return nil
			}
			lv[3] = ct.Level()
			return nil
		})
		switch {
		case panicked != nil:
			c.Fail("C18/reported/staged-circuit-panic", "%s: %s: %v", key, stage, panicked)
			return
		case err != nil:
			c.Fail("C18/reported/staged-circuit-error", "%s: %s: %v", key, stage, err)
			return
		}
		c.Logf("%s: levels ModUp=%d C2S=%d EvalMod=%d S2C=%d; reported C2S=%d EvalMod=%d S2C=%d", key, lv[0], lv[1], lv[2], lv[3], p.DepthCoeffsToSlots(), p.DepthEvalMod(), p.DepthSlotsToCoeffs())
		if lv[0] != pN2.MaxLevel() {
			c.Fail("C18/reported/ModUp-level", "%s: ModUp returns level %d, the chain has MaxLevel %d", key, lv[0], pN2.MaxLevel())
		}
		c2s, mod, s2c := lv[0]-lv[1], lv[1]-lv[2], lv[2]-lv[3]
		if c2s != s2c && c2s == p.DepthSlotsToCoeffs() && s2c == p.DepthCoeffsToSlots() {
			// one root cause, one signature: each getter reports the other transformation's depth
			c.Fail(sigDepthSwapped, "%s: CoeffsToSlots consumed %d levels and SlotsToCoeffs %d, DepthCoeffsToSlots() reports %d and DepthSlotsToCoeffs() reports %d",
				key, c2s, s2c, p.DepthCoeffsToSlots(), p.DepthSlotsToCoeffs())
		} else {
			if c2s != p.DepthCoeffsToSlots() {
				c.Fail("C18/reported/DepthCoeffsToSlots", "%s: CoeffsToSlots consumed %d levels (%d -> %d), DepthCoeffsToSlots() reports %d", key, c2s, lv[0], lv[1], p.DepthCoeffsToSlots())
			}
			if s2c != p.DepthSlotsToCoeffs() {
				c.Fail("C18/reported/DepthSlotsToCoeffs", "%s: SlotsToCoeffs consumed %d levels (%d -> %d), DepthSlotsToCoeffs() reports %d", key, s2c, lv[2], lv[3], p.DepthSlotsToCoeffs())
			}
		}
		if mod != p.DepthEvalMod() {
			c.Fail("C18/reported/DepthEvalMod", "%s: EvalMod consumed %d levels (%d -> %d), DepthEvalMod() reports %d", key, mod, lv[1], lv[2], p.DepthEvalMod())
		}
		if lv[3] != ev.OutputLevel() {
			c.Fail("C18/reported/staged-output-level", "%s: the staged circuit ends at level %d, OutputLevel()=%d", key, lv[3], ev.OutputLevel())
		}
		c.Cover("reported", "staged")
	}

	// (4) input at exactly MinimumInputLevel with a scale that is not a power of two
	min := ev.MinimumInputLevel()
	if min < 0 || min > res.MaxLevel() {
		c.Fail("C18/reported/MinimumInputLevel-outside-the-chain", "%s: MinimumInputLevel()=%d, residual MaxLevel()=%d", key, min, res.MaxLevel())
		return
	}
	if k.Iter != 0 || !minLevel {
		return
	}
	// Evaluate: "If the input ciphertext is at level one or more, the input scale does not need to be an exact power of
	// two as one level can be used to do a scale matching." Differential oracle on the same keys: the default
	// (power-of-two) scale first, then the same message at 0.7381 times that scale; the second must come back as
	// precisely as the first (marginBits), at the announced level and scale.
	bootAt := func(factor float64) (bits float64, ok bool) {
		ct := mkct(min, factor)
		in := ct.Scale.Log2()
		var out *rlwe.Ciphertext
		var err error
		if _, panicked := uni.Try(func() error { out, err = ev.Bootstrap(ct); return nil }); panicked != nil {
			c.Fail("C18/reported/MinimumInputLevel-bootstrap-panic", "%s: input at level %d, scale 2^%.3f: %v", key, min, in, panicked)
			return 0, false
		}
		if err != nil {
			c.Fail("C18/reported/MinimumInputLevel-bootstrap-error", "%s: input at level MinimumInputLevel()=%d, scale 2^%.3f: %v", key, min, in, err)
			return 0, false
		}
		if out.Level() != ev.OutputLevel() || !out.Scale.Equal(res.DefaultScale()) {
			c.Fail("C18/reported/MinimumInputLevel-output", "%s: input scale 2^%.3f: output at level %d scale 2^%.4f, announced level %d scale 2^%.4f", key, in, out.Level(), out.Scale.Log2(), ev.OutputLevel(), res.DefaultScale().Log2())
			return 0, false
		}
		have := make([]*bignum.Complex, 1<<ctLog)
		if err := ecd.Decode(dec.DecryptNew(out), have); err != nil {
			c.Fail("C18/func/decode-error", "%s: %v", key, err)
			return 0, false
		}
		return precisionBits(want, have), true
	}
	pow2, ok := bootAt(1)
	if !ok {
		return
	}
	other, ok := bootAt(0.7381)
	if !ok {
		return
	}
	c.Logf("%s: level %d: precision %.2f bits at the default scale, %.2f bits at 0.7381 times that scale", key, min, pow2, other)
	c.Cover("reported", "minimum-input-level")
	if pow2 < 10 {
		c.Cover("reported", "minimum-input-level-uninformative")
	} else if other < pow2-marginBits {
		c.Fail(sigScaleMatching, "%s: input at level MinimumInputLevel()=%d: worst-slot precision %.1f bits with the default scale 2^%d, %.1f bits with the scale multiplied by 0.7381 (announced: above level 0 the scale need not be a power of two)",
			key, min, pow2, int(res.DefaultScale().Log2()+0.5), other)
	}
	bits := other
	c.Outcome(key, p.DepthCoeffsToSlots(), p.DepthEvalMod(), p.DepthSlotsToCoeffs(), int(bits)/4)
}
