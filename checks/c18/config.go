package main

import (
	"fmt"
	"math"
	"strings"

	"github.com/tuneinsight/lattigo/v6/circuits/ckks/bootstrapping"
	"github.com/tuneinsight/lattigo/v6/circuits/ckks/mod1"
	"github.com/tuneinsight/lattigo/v6/ring"
	"github.com/tuneinsight/lattigo/v6/schemes/ckks"
	"github.com/tuneinsight/lattigo/v6/utils"
)

// cfg is one reduced-size bootstrapping configuration (DESIGN §6 C18 item 2). The zero value of every
// option field is the "ordinary" answer: sparse main secret, encapsulation with an H=32 ephemeral secret,
// one iteration, CosDiscrete with three double angles, no arcsine, default DFT depth splits, residual
// ring = bootstrapping ring, one ciphertext at level 0 with |m| up to 1.
type cfg struct {
	LogN     int // ring degree of the bootstrapping parameters
	LogSlots int // LogSlots of the bootstrapping literal (1..LogN-1)

	Dense     bool // main secret dense (H = N/2 of the ring it lives in) instead of sparse
	NoEncaps  bool // EphemeralSecretWeight = 0
	Residual  int  // 0: same ring, 1: standard ring of degree N/2 (ring-degree switch), 2: conjugate-invariant ring of degree N/2, 3: standard ring N/4
	Batch     int  // number of ciphertexts handed to BootstrapMany minus one (0..3)
	CtGap     int  // ciphertext LogSlots = min(LogSlots, residual max) - CtGap (sparser input than the literal's LogSlots)
	Iter      int  // 0: one bootstrap, 1: one extra iteration {20} without reserved prime, 2: {20} with a reserved prime, 3: two extra iterations {20,20} with a reserved prime
	Mod1      int  // 0: CosDiscrete, 1: SinContinuous, 2: CosContinuous
	DblAngle  int  // 0: library default (3; 0 for Sin), k>0: DoubleAngle = k-1
	ArcSine   int  // 0: off, 1: Mod1InvDegree=5, 2: Mod1InvDegree=7
	C2S       int  // index into c2sSplits
	S2C       int  // index into s2cSplits
	InLevel   int  // input level (0..2); 2 uses a three-prime residual chain
	Small     bool // message magnitude 2^-8 instead of ~1
	Copy      bool // bootstrap with a ShallowCopy of an evaluator that has already been used
	Announced bool // keys built by the harness from the announced lists (announced.go) instead of GenEvaluationKeys; not part of key(): same calibration entry
	Q0        int  // first residual prime: 0: 60 bits (= the EvalMod scale: ModUp has nothing to scale), 1: 55 bits, 2: 50 bits (ModUp multiplies by round(2^60/Q[0]) = 32 / 1024)
}

// mainH is the Hamming weight of the sparse main secret. It differs from the ephemeral weight (32) so that
// the two secrets cannot be confused, and is small enough for every ring of the universe (N >= 64).
const mainH = 48

const ephH = 32

// depth splits of the homomorphic DFTs ([level][scales], see bootstrapping.ParametersLiteral). Index 0 = library default.
// Entries whose factorisation depth exceeds LogSlots are rejected by the library (counted, not judged).
var c2sSplits = [][][]int{
	nil,                            // default: min(4,LogSlots) levels of 56 bits
	{{56}},                         // everything merged in one matrix
	{{56}, {56}},                   // two levels
	{{56}, {56}, {56}},             // three levels
	{{28, 28}, {56}},               // two matrices sharing one prime, then one
	{{56}, {56}, {56}, {56}, {56}}, // five levels (only for LogSlots >= 5)
}

var s2cSplits = [][][]int{
	nil,                      // default: min(3,LogSlots) levels of 39 bits
	{{39}},                   // one matrix
	{{39}, {39}},             // two levels
	{{30}, {30, 30}},         // the split used by the shipped N16QP1553 set
	{{39}, {39}, {39}, {39}}, // four levels (only for LogSlots >= 4)
}

func (k cfg) residualLogN() int {
	switch k.Residual {
	case 1, 2:
		return k.LogN - 1
	case 3:
		return k.LogN - 2
	}
	return k.LogN
}

// ctLogSlots is the LogSlots of the input ciphertext(s).
func (k cfg) ctLogSlots() int {
	m := k.LogSlots
	switch k.Residual {
	case 1:
		m = utils.Min(m, k.LogN-2)
	case 2:
		m = utils.Min(m, k.LogN-1) // conjugate invariant ring of degree N/2 has N/2 real slots
	case 3:
		m = utils.Min(m, k.LogN-3)
	}
	m -= k.CtGap
	if m < 0 {
		m = 0
	}
	return m
}

func (k cfg) key() string {
	var b strings.Builder
	fmt.Fprintf(&b, "N%d/s%d", k.LogN, k.LogSlots)
	add := func(c bool, s string) {
		if c {
			b.WriteString("/" + s)
		}
	}
	add(k.Dense, "dense")
	add(k.NoEncaps, "noencaps")
	add(k.Residual != 0, fmt.Sprintf("res%d", k.Residual))
	add(k.Batch != 0, fmt.Sprintf("batch%d", k.Batch+1))
	add(k.CtGap != 0, fmt.Sprintf("gap%d", k.CtGap))
	add(k.Iter != 0, fmt.Sprintf("iter%d", k.Iter))
	add(k.Mod1 != 0, fmt.Sprintf("mod1t%d", k.Mod1))
	add(k.DblAngle != 0, fmt.Sprintf("da%d", k.DblAngle-1))
	add(k.ArcSine != 0, fmt.Sprintf("asin%d", k.ArcSine))
	add(k.C2S != 0, fmt.Sprintf("c2s%d", k.C2S))
	add(k.S2C != 0, fmt.Sprintf("s2c%d", k.S2C))
	add(k.InLevel != 0, fmt.Sprintf("lvl%d", k.InLevel))
	add(k.Small, "small")
	add(k.Copy, "copy")
	add(k.Q0 != 0, fmt.Sprintf("q0-%d", k.q0Bits()))
	return b.String()
}

// secret returns the main secret distribution for a ring of degree 2^logN.
func (k cfg) secret(logN int) ring.DistributionParameters {
	if k.Dense {
		return ring.Ternary{H: 1 << (logN - 1)}
	}
	return ring.Ternary{H: mainH}
}

// modUpWeight is the Hamming weight of the secret under which the ciphertext is raised from q to Q.
func (k cfg) modUpWeight() int {
	if !k.NoEncaps {
		return ephH
	}
	if k.Residual == 0 {
		if k.Dense {
			return 1 << (k.LogN - 1)
		}
		return mainH
	}
	// ring switch: the bootstrapping-ring secret is a fresh one drawn from the literal's Xs
	if k.Dense {
		return 1 << (k.LogN - 1)
	}
	return mainH
}

// kFor returns the half-width K of the mod-1 approximation interval for a ModUp secret of weight h.
//
// Why: after ModUp the plaintext is m + q·I with I = (c0 + c1·s - [c0 + c1·s]_q)/q, and each coefficient of
// I is a sum of h+1 terms uniform in (-1/2,1/2): |I| <= (h+1)/2 always and its standard deviation is
// sqrt((h+1)/12). The library's default K=16 is the hard bound for h=32 (the ephemeral secret). Without
// encapsulation the harness keeps the failure event |I| >= K-1 negligible by construction: K-1 >= 8.5σ (Gaussian
// tail 2^-57 per coefficient; the true Irwin-Hall tail is lighter), or the hard bound when that is smaller.
func kFor(h int) int {
	hard := (h+1)/2 + 1
	soft := int(math.Ceil(8.5*math.Sqrt(float64(h+1)/12))) + 1
	k := utils.Min(hard, soft)
	if k < 16 {
		k = 16
	}
	return k
}

func (k cfg) q0Bits() int { return [...]int{60, 55, 50}[k.Q0] }

// residualChain returns the residual LogQ and LogDefaultScale.
func (k cfg) residualChain() (logQ []int, logScale int) {
	logQ, logScale = []int{k.q0Bits(), 40}, 40
	if k.InLevel == 2 {
		logQ = []int{k.q0Bits(), 40, 40}
	}
	if k.Iter != 0 {
		// the library's own high-precision recipe (evaluator_test.go): scale 2^80 over two primes, input at level 1
		logScale = 80
	}
	return
}

// inputLevel is the level of the input ciphertext(s): InLevel, the top level in the iterated (scale 2^80) mode.
func (k cfg) inputLevel() int {
	logQ, _ := k.residualChain()
	level := k.InLevel
	if k.Iter != 0 || level > len(logQ)-1 {
		level = len(logQ) - 1
	}
	return level
}

// iterations returns the BootstrappingPrecision list and the reserved prime size of the iterated mode.
func (k cfg) iterations() (prec []float64, reserved int) {
	switch k.Iter {
	case 1:
		return []float64{20}, 0
	case 2:
		return []float64{20}, 28
	case 3:
		return []float64{20, 20}, 28
	}
	return nil, 0
}

// literals translates the configuration into the two library literals.
func (k cfg) literals() (ckks.ParametersLiteral, bootstrapping.ParametersLiteral) {
	rl := k.residualLogN()
	logQ, logScale := k.residualChain()
	res := ckks.ParametersLiteral{
		LogN:            rl,
		LogQ:            logQ,
		LogP:            []int{61},
		LogDefaultScale: logScale,
		Xs:              k.secret(rl),
	}
	if k.Residual != 0 {
		res.LogNthRoot = k.LogN + 1
	}
	if k.Residual == 2 {
		res.RingType = ring.ConjugateInvariant
	}

	btp := bootstrapping.ParametersLiteral{
		LogN:     utils.Pointy(k.LogN),
		LogSlots: utils.Pointy(k.LogSlots),
		LogP:     []int{61},
		Xs:       k.secret(k.LogN),
	}
	// the test suite's size-reduction recipe: the message ratio grows by 16-LogN to keep the precision ...
	ratio := bootstrapping.DefaultLogMessageRatio + 16 - k.LogN
	// ... as far as the input leaves room for it: Evaluate documents that the input scale must stay below
	// Q/MessageRatio at the input level (ScaleDown refuses less than half of it). With the 60-bit first prime this
	// never binds (20 bits of room at level 0); with the 55/50-bit ones it does at level 0 and in the 2^80-scale mode.
	room := -logScale
	for _, b := range logQ[:k.inputLevel()+1] {
		room += b
	}
	if ratio > room-1 {
		ratio = room - 1
	}
	btp.LogMessageRatio = utils.Pointy(ratio)
	if k.NoEncaps {
		btp.EphemeralSecretWeight = utils.Pointy(0)
	}
	K := kFor(k.modUpWeight())
	if K != bootstrapping.DefaultK {
		btp.K = utils.Pointy(K)
	}
	switch k.Mod1 {
	case 1:
		btp.Mod1Type = mod1.SinContinuous
	case 2:
		btp.Mod1Type = mod1.CosContinuous
	}
	if k.DblAngle != 0 {
		btp.DoubleAngle = utils.Pointy(k.DblAngle - 1)
	}
	// degree of the approximation: the library default (30) belongs to CosDiscrete with K=16 and three double
	// angles (its documented minimum 2(K-1)); every other (type, K, double angle) needs the degree at which the
	// interpolant of cos/sin(2πx/2^r) on [-K/2^r, K/2^r] has converged (contDegree), otherwise the approximation
	// error, not the circuit, decides the precision.
	da := 3
	if k.DblAngle != 0 {
		da = k.DblAngle - 1
	}
	if k.Mod1 == 1 {
		da = 0
	}
	kr := float64(K) / math.Exp2(float64(da))
	deg := bootstrapping.DefaultMod1Degree
	switch k.Mod1 {
	case 0:
		if need := 2 * (K - 1); need > deg {
			deg = need
		}
		if need := contDegree(kr); da < 3 && need > deg {
			deg = need
		}
	default:
		deg = contDegree(kr)
	}
	if deg != bootstrapping.DefaultMod1Degree {
		btp.Mod1Degree = utils.Pointy(deg)
	}
	switch k.ArcSine {
	case 1:
		btp.Mod1InvDegree = utils.Pointy(5)
	case 2:
		btp.Mod1InvDegree = utils.Pointy(7)
	}
	btp.CoeffsToSlotsFactorizationDepthAndLogScales = c2sSplits[k.C2S]
	btp.SlotsToCoeffsFactorizationDepthAndLogScales = s2cSplits[k.S2C]
	if prec, reserved := k.iterations(); prec != nil {
		btp.IterationsParameters = &bootstrapping.IterationsParameters{BootstrappingPrecision: prec, ReservedPrimeBitSize: reserved}
	}
	return res, btp
}
