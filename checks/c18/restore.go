package main

import (
	"bytes"
	"fmt"
	"sort"

	"github.com/tuneinsight/lattigo/v6/circuits/ckks/bootstrapping"
	"github.com/tuneinsight/lattigo/v6/core/rlwe"
	"github.com/tuneinsight/lattigo/v6/ring"
	"github.com/tuneinsight/lattigo/v6/schemes/ckks"

	"verif/engine"
	"verif/uni"
)

// Restored keys: an EvaluationKeys bundle that went through its own encoding before NewEvaluator must be the bundle
// that was generated — field by field — and must bootstrap to bit-identical ciphertexts (the circuit is deterministic
// given keys and input; no calibration involved). Bases: plain ring, no encapsulation, ring-degree switch,
// conjugate-invariant residual ring (the only one with EvkCmplxToReal / EvkRealToCmplx), each with every transport:
// MarshalBinary -> UnmarshalBinary and WriteTo -> ReadFrom, into a fresh receiver and into a receiver that already
// holds the keys of another configuration.

var restoreBases = []struct {
	name string
	k    cfg
}{
	{"plain", cfg{LogN: 8, LogSlots: 7}},
	{"noencaps", cfg{LogN: 8, LogSlots: 7, NoEncaps: true}},
	{"ring-degree-switch", cfg{LogN: 8, LogSlots: 6, Residual: 1}},
	{"conjugate-invariant", cfg{LogN: 8, LogSlots: 7, Residual: 2}},
}

var restoreMethods = []string{"marshal-into-fresh", "writeto-into-fresh", "marshal-into-used", "writeto-into-used"}

type namedKey struct {
	name string
	key  *rlwe.EvaluationKey
}

func bundleFields(b *bootstrapping.EvaluationKeys) []namedKey {
	return []namedKey{{"EvkN1ToN2", b.EvkN1ToN2}, {"EvkN2ToN1", b.EvkN2ToN1}, {"EvkRealToCmplx", b.EvkRealToCmplx}, {"EvkCmplxToReal", b.EvkCmplxToReal},
		{"EvkDenseToSparse", b.EvkDenseToSparse}, {"EvkSparseToDense", b.EvkSparseToDense}}
}

// sameBundle compares two bundles field by field through the encodings of the individual keys.
func sameBundle(a, b *bootstrapping.EvaluationKeys) string {
	fa, fb := bundleFields(a), bundleFields(b)
	for i := range fa {
		x, y := fa[i].key, fb[i].key
		if (x == nil) != (y == nil) {
			return fmt.Sprintf("%s: generated nil=%v, restored nil=%v", fa[i].name, x == nil, y == nil)
		}
		if x == nil {
			continue
		}
		bx, _ := x.MarshalBinary()
		by, _ := y.MarshalBinary()
		if !bytes.Equal(bx, by) {
			// say which field of the generated bundle the restored one equals, if any (swapped fields)
			for j := range fa {
				if fa[j].key != nil {
					if bj, _ := fa[j].key.MarshalBinary(); bytes.Equal(bj, by) {
						return fmt.Sprintf("restored %s holds the generated %s", fb[i].name, fa[j].name)
					}
				}
			}
			return fmt.Sprintf("%s differs", fa[i].name)
		}
	}
	if (a.MemEvaluationKeySet == nil) != (b.MemEvaluationKeySet == nil) {
		return "MemEvaluationKeySet nil-ness differs"
	}
	ra, ea := a.GetRelinearizationKey()
	rb, eb := b.GetRelinearizationKey()
	if (ea == nil) != (eb == nil) {
		return "relinearization key presence differs"
	}
	if ea == nil {
		bx, _ := ra.MarshalBinary()
		by, _ := rb.MarshalBinary()
		if !bytes.Equal(bx, by) {
			return "relinearization key differs"
		}
	}
	ga, gb := a.GetGaloisKeysList(), b.GetGaloisKeysList()
	sort.Slice(ga, func(i, j int) bool { return ga[i] < ga[j] })
	sort.Slice(gb, func(i, j int) bool { return gb[i] < gb[j] })
	if fmt.Sprint(ga) != fmt.Sprint(gb) {
		return fmt.Sprintf("Galois elements differ: %v vs %v", ga, gb)
	}
	for _, g := range ga {
		ka, _ := a.GetGaloisKey(g)
		kb, _ := b.GetGaloisKey(g)
		bx, _ := ka.MarshalBinary()
		by, _ := kb.MarshalBinary()
		if !bytes.Equal(bx, by) {
			return fmt.Sprintf("Galois key %d differs", g)
		}
	}
	return ""
}

func restoreScenario(bi int) engine.Scenario {
	base := restoreBases[bi]
	name := "restored/N8/" + base.name
	return engine.Scenario{Name: name, Bound: -1, Fn: func(c *engine.Chooser) {
		method := restoreMethods[c.Choose(len(restoreMethods), "transport")]
		uni.Seed(c, name)
		k := base.k
		resLit, btpLit := k.literals()
		s, rejected := build(c, name, resLit, btpLit, nil, false)
		if c.Failed() {
			return
		}
		if rejected != "" {
			panic("harness: restore configuration rejected: " + rejected)
		}
		c.Cover("restored", base.name)
		c.Cover("restored", method)

		// receiver: fresh, or one that holds the keys of ANOTHER base (other nil / non-nil fields, other Galois elements)
		recv := &bootstrapping.EvaluationKeys{}
		if method == "marshal-into-used" || method == "writeto-into-used" {
			ok := restoreBases[(bi+2)%len(restoreBases)].k // plain<->ring-degree-switch, noencaps<->conjugate-invariant
			r2, b2 := ok.literals()
			o, rej := build(c, name+"/other", r2, b2, nil, false)
			if rej != "" || c.Failed() {
				panic("harness: other configuration: " + rej)
			}
			recv = o.evk
		}
		var err error
		switch method {
		case "marshal-into-fresh", "marshal-into-used":
			var data []byte
			if data, err = s.evk.MarshalBinary(); err == nil {
				if len(data) != s.evk.BinarySize() {
					c.Fail("C18/restored/BinarySize", "%s: MarshalBinary gives %d bytes, BinarySize()=%d", name, len(data), s.evk.BinarySize())
				}
				err = recv.UnmarshalBinary(data)
			}
		default:
			var buf bytes.Buffer
			var n, m int64
			if n, err = s.evk.WriteTo(&buf); err == nil {
				if int(n) != buf.Len() || buf.Len() != s.evk.BinarySize() {
					c.Fail("C18/restored/BinarySize", "%s: WriteTo reports %d, wrote %d, BinarySize()=%d", name, n, buf.Len(), s.evk.BinarySize())
				}
				total := buf.Len()
				m, err = recv.ReadFrom(&buf)
				if err == nil && (int(m) != total || buf.Len() != 0) {
					c.Fail("C18/restored/ReadFrom-count", "%s: ReadFrom reports %d of %d bytes, %d left", name, m, total, buf.Len())
				}
			}
		}
		if err != nil {
			c.Fail("C18/restored/codec-error", "%s (%s): %v", name, method, err)
			return
		}
		if d := sameBundle(s.evk, recv); d != "" {
			c.Fail("C18/restored/bundle-differs-from-generated", "%s (%s): %s", name, method, d)
			// keep going: the functional comparison below shows the consequence
		}
		// same keys => same evaluator => bit-identical bootstrap
		ev2, err := bootstrapping.NewEvaluator(s.btp, recv)
		if err != nil {
			c.Fail("C18/restored/NewEvaluator-refuses-restored-keys", "%s (%s): %v", name, method, err)
			return
		}
		res := s.res
		realOnly := res.RingType() == ring.ConjugateInvariant
		ecd := ckks.NewEncoder(res)
		enc := rlwe.NewEncryptor(res, s.sk)
		ctLog := k.ctLogSlots()
		mk := func() []rlwe.Ciphertext {
			cts := make([]rlwe.Ciphertext, 2)
			for j := range cts {
				pt := ckks.NewPlaintext(res, 0)
				pt.LogDimensions = ring.Dimensions{Rows: 0, Cols: ctLog}
				if err := ecd.Encode(message(1<<ctLog, j, 1, realOnly), pt); err != nil {
					panic("harness: " + err.Error())
				}
				ct, err := enc.EncryptNew(pt)
				if err != nil {
					panic("harness: " + err.Error())
				}
				cts[j] = *ct
			}
			return cts
		}
		in := mk()
		clone := func() []rlwe.Ciphertext {
			o := make([]rlwe.Ciphertext, len(in))
			for i := range in {
				o[i] = *in[i].CopyNew()
			}
			return o
		}
		out1, err1 := s.eval.BootstrapMany(clone())
		out2, err2 := ev2.BootstrapMany(clone())
		if (err1 == nil) != (err2 == nil) {
			c.Fail("C18/restored/bootstrap-differs-from-generated-keys", "%s (%s): generated keys: %v, restored keys: %v", name, method, err1, err2)
			return
		}
		if err1 == nil {
			if d := sameCiphertexts(out1, out2); d != "" {
				c.Fail("C18/restored/bootstrap-differs-from-generated-keys", "%s (%s): %s", name, method, d)
			}
		}
		c.Count(2)
		c.Outcome(name, method, err1 == nil)
	}}
}

func restoreScenarios(tier string) []engine.Scenario {
	var scs []engine.Scenario
	for i := range restoreBases {
		scs = append(scs, restoreScenario(i))
	}
	return scs
}
