package main

import (
	"fmt"
	"math"
	"math/big"
	"os"

	"github.com/tuneinsight/lattigo/v6/circuits/ckks/dft"
	"github.com/tuneinsight/lattigo/v6/circuits/ckks/mod1"
	"github.com/tuneinsight/lattigo/v6/circuits/ckks/polynomial"
	"github.com/tuneinsight/lattigo/v6/core/rlwe"
	"github.com/tuneinsight/lattigo/v6/ring"
	"github.com/tuneinsight/lattigo/v6/schemes/ckks"
	"github.com/tuneinsight/lattigo/v6/utils"
	"github.com/tuneinsight/lattigo/v6/utils/bignum"

	"verif/engine"
	"verif/uni"
)

// ---------------------------------------------------------------------------------------------
// homomorphic DFT: SlotsToCoeffs(CoeffsToSlots(ct)) = ct, and CoeffsToSlots against its definition

// compositions of `depth` into an ordered list of per-level matrix counts is what MatrixLiteral.Levels is; the
// bootstrapping circuit only ever uses all-ones lists (one matrix per level, merged factors). dftSplits lists, per
// LogSlots, every number of levels 1..LogSlots.
type dftCase struct {
	logN, logSlots, depthC2S, depthS2C int
	bsgs                               int
	bitrev                             bool
}

func (d dftCase) name() string {
	s := fmt.Sprintf("dft/N%d/s%d/c2s%d/s2c%d/bsgs%d", d.logN, d.logSlots, d.depthC2S, d.depthS2C, d.bsgs)
	if d.bitrev {
		s += "/bitrev"
	}
	return s
}

func ones(n int) []int {
	r := make([]int, n)
	for i := range r {
		r[i] = 1
	}
	return r
}

func dftScenario(d dftCase) engine.Scenario {
	name := d.name()
	return engine.Scenario{Name: name, Bound: -1, Fn: func(c *engine.Chooser) {
		if recordingSkipsID("dft-id/"+name, name) {
			return
		}
		uni.Seed(c, name)
		// chain: one 55-bit base prime, then one 45-bit prime per DFT level (scale 2^45)
		logQ := []int{55}
		for i := 0; i < d.depthC2S+d.depthS2C; i++ {
			logQ = append(logQ, 45)
		}
		params, err := ckks.NewParametersFromLiteral(ckks.ParametersLiteral{LogN: d.logN, LogQ: logQ, LogP: []int{61}, LogDefaultScale: 45})
		if err != nil {
			panic("harness: " + err.Error())
		}
		c2sLit := dft.MatrixLiteral{Type: dft.HomomorphicEncode, Format: dft.RepackImagAsReal, LogSlots: d.logSlots,
			LevelQ: params.MaxLevel(), LevelP: params.MaxLevelP(), Levels: ones(d.depthC2S), LogBSGSRatio: d.bsgs, BitReversed: d.bitrev}
		s2cLit := dft.MatrixLiteral{Type: dft.HomomorphicDecode, Format: dft.RepackImagAsReal, LogSlots: d.logSlots,
			LevelQ: params.MaxLevel() - d.depthC2S, LevelP: params.MaxLevelP(), Levels: ones(d.depthS2C), LogBSGSRatio: d.bsgs, BitReversed: d.bitrev}
		ecd := ckks.NewEncoder(params)
		c2s, err := dft.NewMatrixFromLiteral(params, c2sLit, ecd)
		if err != nil {
			c.Fail("C18/dft/NewMatrixFromLiteral-error", "%s: C2S: %v", name, err)
			return
		}
		s2c, err := dft.NewMatrixFromLiteral(params, s2cLit, ecd)
		if err != nil {
			c.Fail("C18/dft/NewMatrixFromLiteral-error", "%s: S2C: %v", name, err)
			return
		}
		kgen := rlwe.NewKeyGenerator(params)
		sk := kgen.GenSecretKeyNew()
		// keys: exactly the advertised rotations of both literals plus the conjugation (CoeffsToSlots calls Conjugate;
		// the library's own tests add it the same way)
		gal := map[uint64]bool{params.GaloisElementForComplexConjugation(): true}
		for _, g := range c2sLit.GaloisElements(params) {
			gal[g] = true
		}
		for _, g := range s2cLit.GaloisElements(params) {
			gal[g] = true
		}
		rec := newRecSet(rlwe.NewMemEvaluationKeySet(nil, kgen.GenGaloisKeysNew(sortedU64(gal), sk)...))
		eval := ckks.NewEvaluator(params, rec)
		hdft := dft.NewEvaluator(params, eval)

		slots := 1 << d.logSlots
		want := message(slots, 0, 1, false)
		pt := ckks.NewPlaintext(params, params.MaxLevel())
		pt.LogDimensions = ring.Dimensions{Rows: 0, Cols: d.logSlots}
		if err := ecd.Encode(want, pt); err != nil {
			panic("harness: " + err.Error())
		}
		// the plaintext polynomial's coefficients (real numbers): the definition CoeffsToSlots is checked against
		coeffs := make([]*big.Float, params.N())
		pt.IsBatched = false
		if err := ecd.Decode(pt, coeffs); err != nil {
			panic("harness: " + err.Error())
		}
		pt.IsBatched = true
		ct, err := rlwe.NewEncryptor(params, sk).EncryptNew(pt)
		if err != nil {
			panic("harness: " + err.Error())
		}
		dec := rlwe.NewDecryptor(params, sk)

		ctReal, ctImag, err := hdft.CoeffsToSlotsNew(ct, c2s)
		if err != nil {
			c.Fail("C18/dft/CoeffsToSlots-error", "%s: %v (missing keys: %v)", name, err, sortedU64(rec.missing))
			return
		}
		sparse := d.logSlots < params.LogMaxSlots()
		if (ctImag == nil) != sparse {
			c.Fail("C18/dft/CoeffsToSlots-output-shape", "%s: sparse=%v but ctImag nil=%v", name, sparse, ctImag == nil)
			return
		}
		if ctReal.Level() != params.MaxLevel()-d.depthC2S {
			c.Fail("C18/dft/CoeffsToSlots-levels", "%s: output level %d, literal announces depth %d from level %d", name, ctReal.Level(), d.depthC2S, params.MaxLevel())
		}
		// definition (dft.go, CoeffsToSlotsNew doc; dft_test.go): slot i of the real (imaginary) output holds
		// coefficient bitrev(i)·gap (N/2 + bitrev(i)·gap) of the input polynomial; sparse packing returns real||imag.
		if !d.bitrev {
			gap := params.N() / (2 * slots)
			wantSlots := make([]*bignum.Complex, 0, 2*slots)
			for half := 0; half < 2; half++ {
				for i := 0; i < slots; i++ {
					j := int(utils.BitReverse64(uint64(i), d.logSlots))*gap + half*(params.N()>>1)
					wantSlots = append(wantSlots, &bignum.Complex{new(big.Float).SetPrec(floatPrec).Set(coeffs[j]), new(big.Float).SetPrec(floatPrec)})
				}
			}
			var haveSlots []*bignum.Complex
			if sparse {
				haveSlots = make([]*bignum.Complex, 2*slots)
				p := dec.DecryptNew(ctReal)
				p.LogDimensions.Cols = d.logSlots + 1
				if err := ecd.Decode(p, haveSlots); err != nil {
					panic("harness: " + err.Error())
				}
			} else {
				a, b := make([]*bignum.Complex, slots), make([]*bignum.Complex, slots)
				if err := ecd.Decode(dec.DecryptNew(ctReal), a); err != nil {
					panic("harness: " + err.Error())
				}
				if err := ecd.Decode(dec.DecryptNew(ctImag), b); err != nil {
					panic("harness: " + err.Error())
				}
				haveSlots = append(a, b...)
			}
			judgePrecision(c, "dft-c2s", name, precisionBits(wantSlots, haveSlots))
		}

		out, err := hdft.SlotsToCoeffsNew(ctReal, ctImag, s2c)
		if err != nil {
			c.Fail("C18/dft/SlotsToCoeffs-error", "%s: %v (missing keys: %v)", name, err, sortedU64(rec.missing))
			return
		}
		checkRequests(c, name, rec)
		if out.Level() != params.MaxLevel()-d.depthC2S-d.depthS2C {
			c.Fail("C18/dft/SlotsToCoeffs-levels", "%s: output level %d, want %d", name, out.Level(), params.MaxLevel()-d.depthC2S-d.depthS2C)
		}
		have := make([]*bignum.Complex, slots)
		po := dec.DecryptNew(out)
		po.LogDimensions.Cols = d.logSlots
		if err := ecd.Decode(po, have); err != nil {
			panic("harness: " + err.Error())
		}
		bits := precisionBits(want, have)
		judgePrecision(c, "dft-id", name, bits)
		c.Cover("dft", fmt.Sprintf("sparse=%v", sparse))
		c.Cover("dftDepth", fmt.Sprintf("c2s%d", d.depthC2S))
		c.Cover("dftDepth", fmt.Sprintf("s2c%d", d.depthS2C))
		c.Outcome(name, int(bits))
	}}
}

func dftScenarios(tier string) []engine.Scenario {
	var scs []engine.Scenario
	logNs := []int{6, 7}
	if tier == "thorough" {
		logNs = []int{6, 7, 8}
	}
	for _, logN := range logNs {
		for logSlots := 1; logSlots <= logN-1; logSlots++ {
			for dc := 1; dc <= logSlots; dc++ {
				for ds := 1; ds <= logSlots; ds++ {
					// every (C2S depth, S2C depth) pair would be quadratic; the two transforms are independent, so the
					// quick tier walks the diagonal and the two borders, thorough the full square
					if tier != "thorough" && !(dc == ds || dc == 1 || ds == 1 || dc == logSlots || ds == logSlots) {
						continue
					}
					scs = append(scs, dftScenario(dftCase{logN, logSlots, dc, ds, 1, false}))
				}
			}
			// baby-step/giant-step ratios and the bit-reversed variant on the deepest and the shallowest split
			for _, dep := range []int{1, logSlots} {
				for _, bs := range []int{0, 2} {
					scs = append(scs, dftScenario(dftCase{logN, logSlots, dep, dep, bs, false}))
				}
				scs = append(scs, dftScenario(dftCase{logN, logSlots, dep, dep, 1, true}))
			}
		}
	}
	// dedupe (depth 1 == logSlots for logSlots 1)
	seen := map[string]bool{}
	var r []engine.Scenario
	for _, s := range scs {
		if !seen[s.Name] {
			seen[s.Name] = true
			r = append(r, s)
		}
	}
	return r
}

// ---------------------------------------------------------------------------------------------
// mod1: homomorphic x mod 1 on a grid of its interval

type mod1Case struct {
	logN     int
	typ      mod1.Type
	K        int
	ratio    int // LogMessageRatio
	dblAngle int
	invDeg   int
	deg      int
	// ignoredDA: SinContinuous only. The literal's DoubleAngle is set to this value, which the documentation declares
	// ignored for the sine ("DoubleAngle: ... ignored if Mod1Type = SinContinuous"): everything must be as with 0.
	ignoredDA int
}

// calName is the calibration key: a field documented as ignored does not change it.
func (m mod1Case) calName() string {
	return fmt.Sprintf("mod1/N%d/t%d/K%d/r%d/da%d/inv%d/deg%d", m.logN, m.typ, m.K, m.ratio, m.dblAngle, m.invDeg, m.deg)
}

func (m mod1Case) name() string {
	if m.ignoredDA != 0 {
		return m.calName() + fmt.Sprintf("/literal-DoubleAngle=%d-ignored", m.ignoredDA)
	}
	return m.calName()
}

// mod1Fingerprint: every field of the instantiated mod1 parameters, polynomials coefficient by coefficient.
func mod1Fingerprint(p mod1.Parameters) string {
	poly := func(q *bignum.Polynomial) string {
		if q == nil {
			return "nil"
		}
		s := fmt.Sprintf("%+v[", q.MetaData)
		for _, c := range q.Coeffs {
			if c == nil {
				s += "-,"
			} else {
				s += c[0].Text('g', 30) + "/" + c[1].Text('g', 30) + ","
			}
		}
		return s + "]"
	}
	return fmt.Sprintf("LevelQ=%d LogDefaultScale=%d type=%v ratio=%d da=%d QDiff=%v Sqrt2Pi=%v K=%v poly=%s inv=%s", p.LevelQ, p.LogDefaultScale, p.Mod1Type, p.LogMessageRatio,
		p.DoubleAngle, p.QDiff, p.Sqrt2Pi, p.K, poly(&p.Mod1Poly), poly(p.Mod1InvPoly))
}

// contDegree: degree at which the Chebyshev interpolant of cos/sin(2πx) on [-Kr,Kr] has converged well below the
// CKKS noise: the coefficients c_n ~ J_n(2πKr) decay super-exponentially once n exceeds 2πKr by a few multiples of
// (πKr)^(1/3).
func contDegree(kr float64) int {
	return int(math.Ceil(2*math.Pi*kr+14*math.Cbrt(math.Pi*kr))) + 10
}

// asinTaylor evaluates the degree-d Taylor polynomial of arcsin (what Mod1InvPoly encodes, mod1_parameters.go).
func asinTaylor(y float64, d int) float64 {
	c := 1.0
	s := y
	p := y
	for i := 3; i <= d; i += 2 {
		c *= float64(i*i-4*i+4) / float64(i*i-i)
		p *= y * y
		s += c * p
	}
	return s
}

func mod1Scenario(m mod1Case) engine.Scenario {
	name := m.name()
	return engine.Scenario{Name: name, Bound: -1, Fn: func(c *engine.Chooser) {
		if recordingSkipsID("mod1/"+name, name) || (m.ignoredDA != 0 && os.Getenv("VERIF_C18_CALIBRATE") != "") {
			return
		}
		uni.Seed(c, name)
		lit := mod1.ParametersLiteral{LogScale: 60, Mod1Type: m.typ, LogMessageRatio: m.ratio, K: m.K, Mod1Degree: m.deg,
			DoubleAngle: m.dblAngle, Mod1InvDegree: m.invDeg}
		depth := lit.Depth()
		if m.ignoredDA != 0 {
			// ignored means ignored: the announced depth first
			lit.DoubleAngle = m.ignoredDA
			if d := lit.Depth(); d != depth {
				c.Fail("C18/mod1/ignored-DoubleAngle-changes-Depth", "%s: Depth()=%d with DoubleAngle=%d, %d with DoubleAngle=0 (SinContinuous ignores the field)", name, d, m.ignoredDA, depth)
				return
			}
			c.Cover("mod1", "sine-ignored-double-angle")
		}
		// the library's own recipe (mod1_evaluator_test.go): 55-bit base prime, 60-bit primes for the circuit, one
		// 53-bit prime on top for the normalisation by 1/(K·QDiff); scale 2^45
		// One more 60-bit prime than the recipe at the bottom: the evaluator hands the result back at the input's scale
		// ScalingFactor/MessageRatio (2^56 for ratio 2^4), which does not fit the 55-bit base prime for |m| > 1/4 —
		// the library's test only survives that because it judges the *average* precision.
		logQ := []int{55, 60}
		for i := 0; i < depth; i++ {
			logQ = append(logQ, 60)
		}
		logQ = append(logQ, 53)
		lit.LevelQ = depth + 1
		params, err := ckks.NewParametersFromLiteral(ckks.ParametersLiteral{LogN: m.logN, LogQ: logQ, LogP: []int{61, 61}, LogDefaultScale: 45, Xs: ring.Ternary{H: 16}})
		if err != nil {
			panic("harness: " + err.Error())
		}
		mp, err := mod1.NewParametersFromLiteral(params, lit)
		if err != nil {
			if m.ignoredDA != 0 {
				c.Fail("C18/mod1/ignored-DoubleAngle-refused", "%s: %v", name, err)
				return
			}
			c.Cover("rejected", "mod1-literal")
			c.Note("%s rejected: %v", name, err)
			return
		}
		if m.ignoredDA != 0 {
			// ... then the instantiated parameters, field by field, against the ones built with DoubleAngle = 0
			lit0 := lit
			lit0.DoubleAngle = 0
			mp0, err := mod1.NewParametersFromLiteral(params, lit0)
			if err != nil {
				panic("harness: " + err.Error())
			}
			if a, b := mod1Fingerprint(mp), mod1Fingerprint(mp0); a != b {
				c.Fail("C18/mod1/ignored-DoubleAngle-changes-the-parameters", "%s: parameters differ from the ones built with DoubleAngle=0: %s", name, firstDiffStr(b, a))
				// value and levels are judged all the same below
			}
		}
		kgen := rlwe.NewKeyGenerator(params)
		sk := kgen.GenSecretKeyNew()
		ecd := ckks.NewEncoder(params)
		enc := rlwe.NewEncryptor(params, sk)
		dec := rlwe.NewDecryptor(params, sk)
		eval := ckks.NewEvaluator(params, rlwe.NewMemEvaluationKeySet(kgen.GenRelinearizationKeyNew(sk)))
		mev := mod1.NewEvaluator(eval, polynomial.NewEvaluator(params, eval), mp)

		// grid: every integer part I in [-(K-1), K-1] (the stated interval) x message m in a ladder of [-1,1];
		// value = I·Q + m with Q = QDiff·MessageRatio, exactly as the library's test builds its inputs
		Q := mp.QDiff * mp.MessageRatio()
		ms := []float64{-1, -0.75, -1.0 / 3, -1.0 / 1024, 0, 1.0 / 4096, 0.5, 0.999}
		if c.Tier == "thorough" && m.logN >= 8 {
			// the LogN 8 scenarios exist in the thorough tier only: a denser ladder there leaves every other key's calibration untouched
			ms = []float64{-1, -0.9, -0.75, -0.6, -0.5, -1.0 / 3, -0.2, -1.0 / 16, -1.0 / 1024, 0, 1.0 / 4096, 1.0 / 64, 0.125, 0.25, 0.4, 0.5, 2.0 / 3, 0.8, 0.95, 0.999}
		}
		type pnt struct{ I, m float64 }
		var grid []pnt
		for I := -(m.K - 1); I <= m.K-1; I++ {
			for _, x := range ms {
				grid = append(grid, pnt{float64(I), x * (1 - float64(I+m.K)/4096)}) // distinct in every slot
			}
		}
		slots := params.MaxSlots()
		worst, worstIdeal := math.Inf(1), 0.0
		for off := 0; off < len(grid); off += slots {
			n := utils.Min(slots, len(grid)-off)
			vals := make([]float64, slots)
			for i := 0; i < n; i++ {
				vals[i] = grid[off+i].I*Q + grid[off+i].m
			}
			pt := ckks.NewPlaintext(params, params.MaxLevel())
			if err := ecd.Encode(vals, pt); err != nil {
				panic("harness: " + err.Error())
			}
			ct, err := enc.EncryptNew(pt)
			if err != nil {
				panic("harness: " + err.Error())
			}
			// bring the message to Δ = Q0/MessageRatio, then to ScalingFactor/MessageRatio, normalise by 1/(K·QDiff)
			sc := rlwe.NewScale(math.Exp2(math.Round(math.Log2(float64(params.Q()[0]) / mp.MessageRatio())))).Div(ct.Scale)
			if err := eval.ScaleUp(ct, rlwe.NewScale(math.Round(sc.Float64())), ct); err != nil {
				panic("harness: " + err.Error())
			}
			sc = mp.ScalingFactor().Div(ct.Scale).Div(rlwe.NewScale(mp.MessageRatio()))
			if err := eval.ScaleUp(ct, rlwe.NewScale(math.Round(sc.Float64())), ct); err != nil {
				panic("harness: " + err.Error())
			}
			if err := eval.Mul(ct, 1/(mp.K*mp.QDiff), ct); err != nil {
				panic("harness: " + err.Error())
			}
			if err := eval.Rescale(ct, ct); err != nil {
				panic("harness: " + err.Error())
			}
			res, err := mev.EvaluateNew(ct)
			if err != nil {
				c.Fail("C18/mod1/EvaluateNew-error", "%s: %v", name, err)
				return
			}
			if res.Level() != lit.LevelQ-depth {
				c.Fail("C18/mod1/depth", "%s: output level %d, literal's Depth()=%d from level %d", name, res.Level(), depth, lit.LevelQ)
			}
			have := make([]float64, slots)
			if err := ecd.Decode(dec.DecryptNew(res), have); err != nil {
				panic("harness: " + err.Error())
			}
			for i := 0; i < n; i++ {
				g := grid[off+i]
				// documented function (mod1_parameters.go / parameters_literal.go): x mod 1 is approximated by
				// sin(2πx)/2π, optionally corrected by the arcsine Taylor polynomial of degree Mod1InvDegree
				x := g.I + g.m/Q
				y := math.Sin(2 * math.Pi * x)
				if m.invDeg > 0 {
					y = asinTaylor(y, m.invDeg)
				}
				model := y * Q / (2 * math.Pi)
				if e := math.Abs(have[i] - model); e > 0 {
					if b := -math.Log2(e); b < worst {
						worst = b
						c.Logf("worst so far: I=%v m=%v have=%v model=%v", g.I, g.m, have[i], model)
					}
				}
				if e := math.Abs(model - g.m); e > worstIdeal {
					worstIdeal = e
				}
			}
			c.Count(n)
		}
		// the model's own distance to the ideal x mod 1 is the cubic term of the sine (stated in the literal's doc as
		// "good approximation when x is close to the origin"): (2π)²|m|³/(6·Q²), removed by the arcsine up to its
		// next Taylor term. A model outside that bound would be a harness error.
		if lim := math.Pow(2*math.Pi, 2) / (6 * Q * Q) * 1.01; worstIdeal > lim+1e-12 {
			panic(fmt.Sprintf("harness: model deviates from x mod 1 by %g > %g", worstIdeal, lim))
		}
		judgePrecision(c, "mod1", m.calName(), worst)
		c.Cover("mod1type", fmt.Sprint(m.typ))
		c.Cover("mod1da", fmt.Sprint(m.dblAngle))
		c.Cover("mod1inv", fmt.Sprint(m.invDeg))
		c.Outcome(name, int(worst))
	}}
}

func mod1Scenarios(tier string) []engine.Scenario {
	var scs []engine.Scenario
	logNs := []int{6}
	Ks := []int{12, 16} // K=25 and 40 (wide intervals, degrees > 200) are thorough-only
	ratios := []int{4, 8}
	invs := []int{0, 5, 7}
	if tier == "thorough" {
		// denser: more interval widths (incl. the K=40 a dense H=512 secret needs), message ratios and arcsine degrees,
		// every double-angle count for each; LogN 8 adds full 128-slot ciphertexts
		logNs = []int{6, 8}
		Ks = []int{8, 12, 16, 25, 40}
		ratios = []int{4, 6, 8, 10}
		invs = []int{0, 3, 5, 7, 9}
	}
	for _, logN := range logNs {
		for _, K := range Ks {
			for _, ratio := range ratios {
				for _, inv := range invs {
					// SinContinuous ignores DoubleAngle (documented)
					scs = append(scs, mod1Scenario(mod1Case{logN, mod1.SinContinuous, K, ratio, 0, inv, contDegree(float64(K)), 0}))
					// ... which is judged: the literal's DoubleAngle 1..3 with the sine, straight at the mod1 entry point
					// (the bootstrapping constructor refuses the combination): same parameters, same depth, same values
					for da := 1; da <= 3; da++ {
						scs = append(scs, mod1Scenario(mod1Case{logN, mod1.SinContinuous, K, ratio, 0, inv, contDegree(float64(K)), da}))
					}
					for da := 0; da <= 3; da++ {
						kr := float64(K) / math.Exp2(float64(da))
						scs = append(scs, mod1Scenario(mod1Case{logN, mod1.CosContinuous, K, ratio, da, inv, contDegree(kr), 0}))
						// CosDiscrete: minimum degree 2(K-1) (documented); the library default 30 belongs to K=16, da=3
						deg := utils.Max(2*(K-1), 30)
						if da < 3 {
							deg = utils.Max(deg, contDegree(kr))
						}
						scs = append(scs, mod1Scenario(mod1Case{logN, mod1.CosDiscrete, K, ratio, da, inv, deg, 0}))
					}
				}
			}
		}
	}
	return scs
}

// firstDiffStr shows the neighbourhood of the first difference of two fingerprints.
func firstDiffStr(a, b string) string {
	i := 0
	for i < len(a) && i < len(b) && a[i] == b[i] {
		i++
	}
	lo, cut := i-40, func(s string, lo, hi int) string {
		if lo < 0 {
			lo = 0
		}
		if hi > len(s) {
			hi = len(s)
		}
		if lo > hi {
			return ""
		}
		return s[lo:hi]
	}
	return fmt.Sprintf("…%s… / …%s…", cut(a, lo, i+40), cut(b, lo, i+40))
}
