// calibrate aggregates the measurement files written by `VERIF_C18_CALIBRATE=<file> ./run C18 <tier>` (one line per
// leaf: "<area>/<key> <seed> <bits>") into checks/c18/calibration.json (min / max / number of runs per key).
// usage: go run ./checks/c18/calibrate file... > checks/c18/calibration.json
package main

import (
	"bufio"
	"encoding/json"
	"fmt"
	"math"
	"os"
	"sort"
	"strings"
)

type entry struct {
	Min  float64 `json:"min"`
	Max  float64 `json:"max"`
	Runs int     `json:"runs"`
}

func main() {
	type obs struct {
		seed string
		bits float64
	}
	seen := map[string]map[string]float64{} // key -> seed -> bits (re-runs of the determinism gate repeat lines)
	for _, p := range os.Args[1:] {
		f, err := os.Open(p)
		if err != nil {
			fmt.Fprintln(os.Stderr, err)
			os.Exit(1)
		}
		sc := bufio.NewScanner(f)
		sc.Buffer(make([]byte, 1<<20), 1<<20)
		for sc.Scan() {
			fs := strings.Fields(sc.Text())
			if len(fs) != 3 {
				continue
			}
			var b float64
			if _, err := fmt.Sscanf(fs[2], "%g", &b); err != nil {
				continue
			}
			if seen[fs[0]] == nil {
				seen[fs[0]] = map[string]float64{}
			}
			if old, ok := seen[fs[0]][fs[1]]; ok && old != b {
				fmt.Fprintf(os.Stderr, "non-deterministic measurement for %s seed %s: %g vs %g\n", fs[0], fs[1], old, b)
				os.Exit(1)
			}
			seen[fs[0]][fs[1]] = b
		}
		f.Close()
	}
	out := map[string]entry{}
	for k, m := range seen {
		e := entry{Min: math.Inf(1), Max: math.Inf(-1)}
		for _, b := range m {
			e.Min = math.Min(e.Min, b)
			e.Max = math.Max(e.Max, b)
			e.Runs++
		}
		e.Min = math.Round(e.Min*100) / 100
		e.Max = math.Round(e.Max*100) / 100
		out[k] = e
	}
	keys := make([]string, 0, len(out))
	for k := range out {
		keys = append(keys, k)
	}
	sort.Strings(keys)
	// one entry per line, sorted: diffs of a recalibration stay readable
	fmt.Println("{")
	for i, k := range keys {
		b, _ := json.Marshal(out[k])
		kb, _ := json.Marshal(k)
		sep := ","
		if i == len(keys)-1 {
			sep = ""
		}
		fmt.Printf("%s: %s%s\n", kb, b, sep)
	}
	fmt.Println("}")
}
