package main

import (
	_ "embed"
	"encoding/json"
	"fmt"
	"os"
	"sort"
	"syscall"

	"verif/engine"
)

// Work balancing. The engine deals scenarios to its workers round robin (scenario i -> worker i mod #workers) and a
// scenario is never split. The scenarios of this check cost between a millisecond and half a minute, so the order of
// the list decides how long the slowest worker runs. costs.json holds the CPU seconds measured per scenario on the
// unmodified tree: VERIF_C18_PROFILE=<file> appends "<tier>\t<name>\t<seconds>" per executed leaf, costs.json is the sum
// per "<tier>:<name>" (rounded to 10 ms).
// The scenarios are distributed longest-first over the workers (balance) and listed cheapest first within a worker (the
// engine re-runs the first leaves of every worker for its determinism gate). Scenarios without an entry count as the median.
// The order never influences a verdict: every leaf seeds its own randomness (uni.Seed).

//go:embed costs.json
var costsJSON []byte

func balance(tier string, scs []engine.Scenario) []engine.Scenario {
	costs := map[string]float64{}
	if err := json.Unmarshal(costsJSON, &costs); err != nil {
		panic("harness: costs.json: " + err.Error())
	}
	if prof := os.Getenv("VERIF_C18_PROFILE"); prof != "" {
		for i := range scs {
			fn, name := scs[i].Fn, scs[i].Name
			scs[i].Fn = func(c *engine.Chooser) {
				t0 := cpuSeconds()
				defer func() {
					if f, err := os.OpenFile(prof, os.O_APPEND|os.O_CREATE|os.O_WRONLY, 0o644); err == nil {
						fmt.Fprintf(f, "%s\t%s\t%.4f\n", tier, name, cpuSeconds()-t0)
						f.Close()
					}
				}()
				fn(c)
			}
		}
	}
	var known []float64
	for _, s := range scs {
		if v, ok := costs[tier+":"+s.Name]; ok {
			known = append(known, v)
		}
	}
	median := 0.0
	if len(known) > 0 {
		sort.Float64s(known)
		median = known[len(known)/2]
	}
	cost := func(s engine.Scenario) float64 {
		if v, ok := costs[tier+":"+s.Name]; ok {
			return v
		}
		return median
	}
	// longest processing time first into the least loaded worker that still has room (worker w receives the
	// positions w, w+16, ...: ceil or floor of n/16 scenarios), then cheapest first within a worker
	const w = 16
	n := len(scs)
	sorted := append([]engine.Scenario{}, scs...)
	sort.SliceStable(sorted, func(i, j int) bool { return cost(sorted[i]) > cost(sorted[j]) })
	bins := make([][]engine.Scenario, w)
	load := make([]float64, w)
	room := make([]int, w)
	for i := range room {
		room[i] = n / w
		if i < n%w {
			room[i]++
		}
	}
	for _, s := range sorted {
		best := -1
		for i := 0; i < w; i++ {
			if len(bins[i]) < room[i] && (best < 0 || load[i] < load[best]) {
				best = i
			}
		}
		bins[best] = append(bins[best], s)
		load[best] += cost(s)
	}
	out := make([]engine.Scenario, 0, n)
	for r := 0; len(out) < n; r++ {
		for i := 0; i < w && len(out) < n; i++ {
			b := bins[i]
			out = append(out, b[len(b)-1-r]) // bins were filled heaviest first
		}
	}
	return out
}

func cpuSeconds() float64 {
	var ru syscall.Rusage
	_ = syscall.Getrusage(syscall.RUSAGE_SELF, &ru)
	return float64(ru.Utime.Sec) + float64(ru.Utime.Usec)/1e6 + float64(ru.Stime.Sec) + float64(ru.Stime.Usec)/1e6
}
