package main

import (
	"fmt"
	"math/big"

	"github.com/tuneinsight/lattigo/v6/core/rlwe"
	"github.com/tuneinsight/lattigo/v6/ring"
	"github.com/tuneinsight/lattigo/v6/ring/ringqp"
	"github.com/tuneinsight/lattigo/v6/utils/sampling"

	"verif/engine"
	"verif/lib/rk"
	"verif/ref"
	"verif/uni"
)

// Group "enc": one scenario per (ring type, logN, Q shape, #P); inside, a deviation-bounded product
// over the option axes of DESIGN §6/C03. Each leaf runs nSeeds independent (key, encryption) pairs.

const nSeeds = 4

const (
	provNew = iota
	provShallowCopy
	provWithKey
	provWithPRNG
	provTestPRNG
)

var provNames = []string{"New", "ShallowCopy", "WithKey", "WithPRNG", "NewTestEncryptorWithPRNG"}

const (
	entEncrypt = iota
	entEncryptNew
	entEncryptZero
	entEncryptZeroNew
)

var entNames = []string{"Encrypt", "EncryptNew", "EncryptZero", "EncryptZeroNew"}

// Signatures of the input classes on which the unchanged tree violates the property (triaged:
// replayed, reduced to a standalone program against the public API — see FINDINGS.md). Every other
// leaf uses the generic signatures "C03/encrypt/<key>/<clause>".
const (
	// encryptZeroSk / encryptZeroSkFromC1 never look at ct.IsMontgomery: the output is the plain
	// (−a·s+e, a) but stays flagged IsMontgomery=true; read as documented (rlwe.CiphertextMetaData) its
	// error is e·R^-1 mod Q. encryptZeroPk (with P) honours the flag, so the key kinds disagree.
	sigMontSk = "C03/Encryptor[sk].EncryptZero/IsMontgomery-target/flag-ignored-output-not-in-flagged-domain"
	// same omission in encryptZeroPkNoP (parameters without P)
	sigMontPkNoP = "C03/Encryptor[pk,no-P].EncryptZero/IsMontgomery-target/flag-ignored-output-not-in-flagged-domain"
	// encryptZeroSk: "if ct.Degree()==1 {c1 = ct.Value[1]} else {c1 = buffQP[1].Q}" was written for the
	// compressed degree-0 form; a degree-2 target takes the else branch too: c0 = −a·s+e is written, a
	// stays in the buffer, the ciphertext decrypts to a uniform polynomial, no error is returned.
	sigDeg2Sk = "C03/Encryptor[sk].EncryptZero/degree-2-target/c1-discarded"
	// a degree-0 *Ciphertext (accepted by the sk encryptor) makes encryptZeroPk(NoP) index ct.Value[1]:
	// panic where the doc promises an error. Low severity; turn into "rejected" here if not admitted.
	sigDeg0Pk = "C03/Encryptor[pk].EncryptZero/degree-0-target/panic-instead-of-error"
)

type encCfg struct {
	params           rlwe.Parameters
	xsI, xeI         int
	pk               bool
	prov, entry      int
	level            int // effective level = min(ct level, pt level)
	ctLevel, ptLevel int
	degree           int
	isNTT, mont      bool
	stale            bool
	pat, dec         int
}

func (cf encCfg) keyName() string {
	if cf.pk {
		return "pk"
	}
	return "sk"
}

func (cf encCfg) String() string {
	return fmt.Sprintf("Xs=%d Xe=%d ntt=%v key=%s prov=%s entry=%s lvl=%d(ct %d,pt %d) deg=%d IsNTT=%v IsMont=%v stale=%v pt=%s dec=%d",
		cf.xsI, cf.xeI, cf.params.NTTFlag(), cf.keyName(), provNames[cf.prov], entNames[cf.entry], cf.level, cf.ctLevel, cf.ptLevel,
		cf.degree, cf.isNTT, cf.mont, cf.stale, ptNames[cf.pat], cf.dec)
}

// formerClass names the input class of a leaf on which the tree USED to violate the property (all fixed
// in /repo, see known_findings.txt `fixed:` lines). The classes are judged like any other leaf, with the
// generic signatures; the names only label the regression leaves of known/enc/* in the coverage.
func (cf encCfg) formerClass() string {
	p := cf.params
	switch {
	case cf.pk && cf.degree == 0:
		return sigDeg0Pk
	case !cf.pk && cf.degree == 2:
		return sigDeg2Sk
	case !cf.pk && cf.mont:
		return sigMontSk
	case cf.pk && p.PCount() == 0 && cf.mont: // encryptZeroPkNoP has no MForm either (encryptZeroPk has)
		return sigMontPkNoP
	}
	return ""
}

func encScenario(rt ring.Type, logN int, ch rk.Chain, np, bound int) engine.Scenario {
	ch = withP(ch, np)
	name := fmt.Sprintf("enc/%s/logN%d/%s/P%d", ringName(rt), logN, ch.Name, np)
	return engine.Scenario{Name: name, Bound: bound, Fn: func(c *engine.Chooser) {
		n := 1 << logN
		var cf encCfg
		cf.xsI = c.Choose(4, "Xs")
		cf.xeI = c.Choose(len(xeFor(ch)), "Xe")
		ntt := c.Choose(2, "NTTFlag") == 0
		cf.params = rk.Params(ch.Lit(logN, maxLogN, rt, ntt, xsAlphabet(n)[cf.xsI], xeFor(ch)[cf.xeI]))
		L := cf.params.MaxLevel()
		cf.pk = c.Choose(2, "key") == 1
		cf.prov = c.Choose(5, "prov")
		cf.entry = c.Choose(4, "entry")
		cf.level = L - c.Choose(L+1, "level")
		cf.ctLevel, cf.ptLevel = cf.level, cf.level
		cf.degree = 1
		if cf.entry == entEncrypt || cf.entry == entEncryptZero {
			// degree 0 under sk is the "compressed" form (c1 stays in the encryptor and must be
			// regenerated from the PRNG by the caller): only generated when the harness owns that PRNG.
			degs := []int{1, 2}
			if cf.pk || cf.prov == provWithPRNG || cf.prov == provTestPRNG {
				degs = append(degs, 0)
			}
			cf.degree = degs[c.Choose(len(degs), "degree")]
			if cf.degree == 1 {
				cf.stale = c.Bool("staleTarget")
			}
		}
		cf.isNTT = ntt
		if cf.entry != entEncryptZeroNew {
			if c.Bool("flipIsNTT") {
				cf.isNTT = !ntt
			}
			cf.mont = c.Bool("IsMontgomery")
		}
		if cf.entry == entEncrypt || cf.entry == entEncryptNew {
			cf.pat = c.Choose(len(ptNames), "pt")
		} else {
			cf.pat = 1 // zero
		}
		if cf.entry == entEncrypt && L > 0 {
			// ciphertext and plaintext at different levels, both directions: Encrypt works at the
			// minimum and must bring the receiver down to it. With the level axis at its default (L)
			// the lower operand sits at L−1.
			lo := cf.level
			if lo == L {
				lo = L - 1
			}
			switch c.Choose(3, "levels") {
			case 1: // ciphertext above the plaintext
				cf.ctLevel, cf.ptLevel, cf.level = L, lo, lo
			case 2: // plaintext above the ciphertext
				cf.ctLevel, cf.ptLevel, cf.level = lo, L, lo
			}
		}
		cf.dec = c.Choose(3, "dec")
		// (classes with a listed defect are judged everywhere, under their own signature: the engine caps
		// stored violations per signature, so a finding no longer crowds out other violations)
		runEnc(c, name, cf)
	}}
}

// compressedScenario: the seed-compressed (degree-0) form of a secret-key encryption, judged the way its
// consumer uses it: the encryptor draws c1 from a PRNG the caller supplied (WithPRNG, or
// NewTestEncryptorWithPRNG), only c0 is kept, and the receiver re-derives c1 from the same key with an
// independent uniform sampler at the ciphertext's level and in the ciphertext's own domain (runEnc does
// that for degree 0) before the ordinary phase / noise / decryption oracles. Full product over every
// level × parameter NTTFlag × target IsNTT × PRNG provenance × entry point × plaintext-level relation,
// for every ring type, chain shape and #P (the deviation-bounded enc/* group reaches degree 0 outside the
// NTT domain only at three deviations).
func compressedScenario(rt ring.Type, logN int, ch rk.Chain, np int) engine.Scenario {
	ch = withP(ch, np)
	name := fmt.Sprintf("compressed/%s/logN%d/%s/P%d", ringName(rt), logN, ch.Name, np)
	return engine.Scenario{Name: name, Bound: -1, Fn: func(c *engine.Chooser) {
		n := 1 << logN
		ntt := c.ChooseFree(2, "NTTFlag") == 0
		var cf encCfg
		cf.params = rk.Params(ch.Lit(logN, maxLogN, rt, ntt, xsAlphabet(n)[0], xeAlphabet()[0]))
		L := cf.params.MaxLevel()
		cf.level = L - c.ChooseFree(L+1, "level")
		cf.ctLevel, cf.ptLevel = cf.level, cf.level
		cf.isNTT = c.ChooseFree(2, "IsNTT") == 0
		cf.prov = []int{provWithPRNG, provTestPRNG}[c.ChooseFree(2, "prov")]
		cf.entry = []int{entEncrypt, entEncryptZero}[c.ChooseFree(2, "entry")]
		cf.degree = 0
		cf.pat = 1
		if cf.entry == entEncrypt {
			cf.pat = 0
			if cf.level < L && c.ChooseFree(2, "levels") == 1 {
				cf.ptLevel = L // plaintext above the compressed receiver
			}
		}
		cf.dec = c.ChooseFree(2, "dec")
		c.Cover("compressed-IsNTT", fmt.Sprint(cf.isNTT))
		c.Cover("compressed-NTTFlag", fmt.Sprint(ntt))
		if cf.level < L {
			c.Cover("compressed-level", "below-max")
		} else {
			c.Cover("compressed-level", "max")
		}
		runEnc(c, name, cf)
	}}
}

// knownEncScenario: representative leaves of every input class on which the unchanged tree violates
// the property (FINDINGS.md). Same oracle (runEnc), one stable signature per class.
func knownEncScenario(rt ring.Type, logN int, ch rk.Chain, np int) engine.Scenario {
	ch = withP(ch, np)
	name := fmt.Sprintf("known/enc/%s/logN%d/%s/P%d", ringName(rt), logN, ch.Name, np)
	return engine.Scenario{Name: name, Bound: -1, Fn: func(c *engine.Chooser) {
		n := 1 << logN
		def := rk.Params(ch.Lit(logN, maxLogN, rt, true, xsAlphabet(n)[0], xeAlphabet()[0]))
		ter := rk.Params(ch.Lit(logN, maxLogN, rt, false, xsAlphabet(n)[0], xeAlphabet()[2]))
		L := def.MaxLevel()
		base := encCfg{params: def, level: L, ctLevel: L, ptLevel: L, degree: 1, isNTT: true}
		var list []encCfg
		add := func(f func(cf *encCfg)) {
			cf := base
			f(&cf)
			list = append(list, cf)
		}
		for _, ent := range []int{entEncrypt, entEncryptZero, entEncryptNew} {
			ent := ent
			for _, ntt := range []bool{true, false} {
				ntt := ntt
				add(func(cf *encCfg) { cf.entry, cf.mont, cf.isNTT = ent, true, ntt })              // sk, IsMontgomery
				add(func(cf *encCfg) { cf.entry, cf.mont, cf.isNTT, cf.pk = ent, true, ntt, true }) // pk: defect only without P
			}
		}
		for _, ent := range []int{entEncrypt, entEncryptZero} {
			ent := ent
			add(func(cf *encCfg) { cf.entry, cf.degree = ent, 2 })                        // sk, degree-2 target
			add(func(cf *encCfg) { cf.entry, cf.degree, cf.pk = ent, 0, true })           // pk, degree-0 target
			add(func(cf *encCfg) { cf.entry, cf.degree, cf.pk = ent, 2, true })           // pk, degree-2 target: fine
			add(func(cf *encCfg) { cf.entry, cf.degree, cf.prov = ent, 0, provWithPRNG }) // sk, compressed form: fine
		}
		if L > 0 {
			for _, pk := range []bool{false, true} {
				pk := pk
				for _, ent := range []int{entEncryptZero, entEncryptZeroNew, entEncrypt} {
					ent := ent
					add(func(cf *encCfg) { // ternary Xe, below the maximum level, outside the NTT domain (fixed in /repo 8ff3362: control)
						cf.params, cf.xeI, cf.entry, cf.pk, cf.isNTT = ter, 2, ent, pk, false
						cf.level, cf.ctLevel, cf.ptLevel = L-1, L-1, L-1
					})
				}
			}
		}
		cf := list[c.ChooseFree(len(list), "case")]
		if cf.entry == entEncryptZero || cf.entry == entEncryptZeroNew {
			cf.pat = 1
		}
		if k := cf.formerClass(); k != "" {
			c.Cover("known-class", k)
		} else {
			c.Cover("known-class", "none(control)")
		}
		runEnc(c, name, cf)
	}}
}

// buildEncryptor obtains the encryptor through the chosen constructor. regen, when non-nil, returns
// a PRNG with the same stream as the one the encryptor draws the uniform c1 from.
func buildEncryptor(cf encCfg, name string, k int, sk, skWrong *rlwe.SecretKey, pk, pkWrong *rlwe.PublicKey) (enc *rlwe.Encryptor, regen func() sampling.PRNG) {
	p := cf.params
	var key rlwe.EncryptionKey = sk
	if cf.pk {
		key = pk
	}
	switch cf.prov {
	case provNew:
		enc = rlwe.NewEncryptor(p, key)
	case provShallowCopy:
		enc = rlwe.NewEncryptor(p, key).ShallowCopy()
	case provWithKey:
		var other rlwe.EncryptionKey
		switch k % 3 {
		case 0:
			other = nil
		case 1: // the other kind of key
			if cf.pk {
				other = sk
			} else {
				other = pk
			}
		case 2: // a different key of the same kind: WithKey must really replace it
			if cf.pk {
				other = pkWrong
			} else {
				other = skWrong
			}
		}
		enc = rlwe.NewEncryptor(p, other).WithKey(key)
	case provWithPRNG:
		regen = func() sampling.PRNG { return uni.KeyedPRNG("c03-u", name, cf.String(), k) }
		enc = rlwe.NewEncryptor(p, key).WithPRNG(regen())
	case provTestPRNG:
		regen = func() sampling.PRNG { return uni.KeyedPRNG("c03-t", name, cf.String(), k) }
		enc = rlwe.NewTestEncryptorWithPRNG(p, key, regen())
	}
	return
}

func metaEqual(a, b *rlwe.MetaData) bool {
	return a.IsNTT == b.IsNTT && a.IsMontgomery == b.IsMontgomery && a.IsBatched == b.IsBatched &&
		a.IsBitReversed == b.IsBitReversed && a.LogDimensions == b.LogDimensions && a.Scale.Cmp(b.Scale) == 0
}

// genDistinctSecret returns a fresh secret that differs from sk (an "independent" key that happened
// to coincide with sk — probability 1/29120 for H=4 at N=16 — would make the wrong-key clause vacuous).
func genDistinctSecret(params rlwe.Parameters, kgen *rlwe.KeyGenerator, sk *rlwe.SecretKey) *rlwe.SecretKey {
	s := rk.Secret(params, sk)
	for {
		w := kgen.GenSecretKeyNew()
		if !rk.Equal(rk.Secret(params, w), s) {
			return w
		}
	}
}

func runEnc(c *engine.Chooser, name string, cf encCfg) {
	p := cf.params
	rt := p.RingType()
	rQ := p.RingQ()
	n := p.N()
	known := "" // no listed finding left: every class is judged under the generic signatures
	gen := "C03/encrypt/" + cf.keyName() + "/"
	sig := func(clause string) string {
		if known != "" {
			return known
		}
		return gen + clause
	}
	withPPath := cf.pk && p.PCount() > 0
	c.Cover("ring", ringName(rt))
	c.Cover("P", fmt.Sprint(p.PCount()))
	c.Cover("Xs", rk.DistName(p.Xs()))
	c.Cover("Xe", rk.DistName(p.Xe()))
	c.Cover("NTTFlag", fmt.Sprint(p.NTTFlag()))
	c.Cover("key", cf.keyName())
	c.Cover("prov", provNames[cf.prov])
	c.Cover("entry", entNames[cf.entry])
	c.Cover("degree", fmt.Sprint(cf.degree))
	c.Cover("IsNTT", fmt.Sprint(cf.isNTT))
	c.Cover("IsMontgomery", fmt.Sprint(cf.mont))
	c.Cover("pt", ptNames[cf.pat])
	c.Cover("dec", fmt.Sprint(cf.dec))
	if cf.level == p.MaxLevel() {
		c.Cover("level", "max")
	} else {
		c.Cover("level", "below-max")
	}
	if cf.ctLevel != cf.ptLevel {
		c.Cover("levels", "ct!=pt")
	}
	if cf.stale {
		c.Cover("target", "stale")
	}
	path := "sk"
	if cf.pk {
		path = "pkNoP"
		if withPPath {
			path = "pkWithP"
		}
	}
	c.Cover("path", path)
	c.Note("%s", cf.String())
	c.Count(nSeeds)

	bound := encBound(p, cf.pk)
	Q := q(p, cf.level)
	if bound.Cmp(new(big.Int).Rsh(Q, 3)) >= 0 {
		// (huge-support error distributions at a level whose modulus they nearly fill: nothing decrypts
		// by construction, outside the statement)
		c.Skip("declared error support ≥ Q/8 at this level")
		return
	}
	var es, c1s []string
	wrongMax := new(big.Int)
	nonZero := 0

	for k := 0; k < nSeeds; k++ {
		uni.Seed(c, name, cf.String(), k)
		kgen := rlwe.NewKeyGenerator(p)
		sk := kgen.GenSecretKeyNew()
		pk := kgen.GenPublicKeyNew(sk)
		skWrong := genDistinctSecret(p, kgen, sk)
		pkWrong := kgen.GenPublicKeyNew(skWrong)
		s := rk.Secret(p, sk)
		enc, regen := buildEncryptor(cf, name, k, sk, skWrong, pk, pkWrong)

		// plaintext with non-trivial metadata, in the flagged domains
		M := plaintextPoly(cf.pat, n, q(p, cf.ptLevel))
		pt := rlwe.NewPlaintext(p, cf.ptLevel)
		pt.IsNTT, pt.IsMontgomery = cf.isNTT, cf.mont
		pt.Scale = rlwe.NewScale(3.5 * (1 << 20))
		pt.LogDimensions = ring.Dimensions{Rows: 1, Cols: 2}
		pt.IsBatched, pt.IsBitReversed = true, true
		rk.SetPoly(rQ, cf.ptLevel, M, cf.isNTT, cf.mont, pt.Value)
		want := rk.CenterAll(M, Q)
		if cf.entry == entEncryptZero || cf.entry == entEncryptZeroNew {
			want = rk.CenterAll(plaintextPoly(1, n, Q), Q)
		}

		// target
		var ct *rlwe.Ciphertext
		if cf.entry == entEncrypt || cf.entry == entEncryptZero {
			ct = rlwe.NewCiphertext(p, cf.degree, cf.ctLevel)
			if cf.stale {
				for d := range ct.Value {
					for i := range ct.Value[d].Coeffs {
						for j := range ct.Value[d].Coeffs[i] {
							ct.Value[d].Coeffs[i][j] = uint64(1234567 + 97*j + d)
						}
					}
				}
			}
			if cf.entry == entEncryptZero {
				ct.IsNTT, ct.IsMontgomery = cf.isNTT, cf.mont
				ct.Scale = rlwe.NewScale(77)
				ct.LogDimensions = ring.Dimensions{Rows: 0, Cols: 3}
			}
		}
		var metaBefore rlwe.MetaData
		if ct != nil {
			metaBefore = *ct.MetaData
		}

		err, pan := uni.Try(func() (err error) {
			switch cf.entry {
			case entEncrypt:
				err = enc.Encrypt(pt, ct)
			case entEncryptNew:
				ct, err = enc.EncryptNew(pt)
			case entEncryptZero:
				err = enc.EncryptZero(ct)
			case entEncryptZeroNew:
				ct = enc.EncryptZeroNew(cf.level)
			}
			return
		})
		if pan != nil {
			c.Fail(sig("panic"), "%s: %s panicked: %v", cf.String(), entNames[cf.entry], pan)
			return
		}
		if err != nil && cf.pk && cf.degree == 0 {
			// a public-key encryption has no compressed form: a degree-0 target cannot hold it, and an
			// error is the documented way to refuse a target
			c.Cover("rejected", "pk-encryption-into-degree-0-target")
			return
		}
		if err != nil {
			c.Fail(sig("error"), "%s: %s returned an error for an admissible call: %v", cf.String(), entNames[cf.entry], err)
			return
		}

		// (iii) metadata and shape
		if ct.Level() != cf.level {
			c.Fail(sig("level"), "%s: ciphertext level %d, want min(ct,pt) = %d", cf.String(), ct.Level(), cf.level)
			return
		}
		switch cf.entry {
		case entEncrypt, entEncryptNew:
			if !metaEqual(ct.MetaData, pt.MetaData) {
				c.Fail(sig("metadata"), "%s: ciphertext metadata %+v != plaintext metadata %+v", cf.String(), *ct.MetaData, *pt.MetaData)
				return
			}
		case entEncryptZero:
			if !metaEqual(ct.MetaData, &metaBefore) {
				c.Fail(sig("metadata"), "%s: EncryptZero changed the target metadata %+v -> %+v", cf.String(), metaBefore, *ct.MetaData)
				return
			}
		case entEncryptZeroNew:
			if ct.IsNTT != p.NTTFlag() || ct.IsMontgomery || ct.Degree() != 1 {
				c.Fail(sig("metadata"), "%s: EncryptZeroNew metadata/degree %+v deg %d", cf.String(), *ct.MetaData, ct.Degree())
				return
			}
		}

		// the element whose phase is judged: for the compressed (degree 0) form c1 is regenerated from
		// a replica of the PRNG, exactly as a receiver of the compressed ciphertext would do
		el := &ct.Element
		if ct.Degree() == 0 {
			c1 := rQ.AtLevel(cf.level).NewPoly()
			ringqp.NewUniformSampler(regen(), *p.RingQP()).AtLevel(cf.level, -1).Read(ringqp.Poly{Q: c1})
			el = &rlwe.Element[ring.Poly]{MetaData: ct.MetaData, Value: []ring.Poly{ct.Value[0], c1}}
		}
		ph := rk.Phase(rt, rQ, el, s)
		e := uni.SubCentered(ph, want, Q)

		// (i) upper bound
		if ref.InfNorm(e).Cmp(bound) > 0 {
			c.Fail(sig("noise-upper"), "%s seed %d: |phase - plaintext|∞ = %v (%d bits) > bound %v; e[0..3]=%v", cf.String(), k,
				ref.InfNorm(e), ref.InfNorm(e).BitLen(), bound, e[:4])
			return
		}

		// (iv) rlwe.Decryptor agrees with the independent phase (of the ciphertext as stored)
		phRaw := ph
		if ct.Degree() == 0 {
			phRaw = rk.Phase(rt, rQ, &ct.Element, s)
		}
		var out *rlwe.Plaintext
		decLevel := cf.level
		errD, panD := uni.Try(func() error {
			switch cf.dec {
			case 0:
				out = rlwe.NewDecryptor(p, sk).DecryptNew(ct)
			case 1: // into a stale max-level plaintext, through a shallow copy
				out = rlwe.NewPlaintext(p, p.MaxLevel())
				for i := range out.Value.Coeffs {
					for j := range out.Value.Coeffs[i] {
						out.Value.Coeffs[i][j] = uint64(31 + j)
					}
				}
				rlwe.NewDecryptor(p, sk).ShallowCopy().Decrypt(ct, out)
			case 2: // into a level-0 plaintext, through WithKey from a decryptor of another key
				out = rlwe.NewPlaintext(p, 0)
				rlwe.NewDecryptor(p, skWrong).WithKey(sk).Decrypt(ct, out)
				decLevel = 0
			}
			return nil
		})
		if panD != nil || errD != nil {
			c.Fail("C03/decrypt/panic", "%s: Decrypt variant %d panicked: %v", cf.String(), cf.dec, panD)
			return
		}
		if out.Level() != decLevel {
			c.Fail("C03/decrypt/level", "%s: decrypted plaintext level %d, want min(ct,pt)=%d", cf.String(), out.Level(), decLevel)
			return
		}
		if !metaEqual(out.MetaData, ct.MetaData) {
			c.Fail("C03/decrypt/metadata", "%s: decrypted metadata %+v != ciphertext metadata %+v", cf.String(), *out.MetaData, *ct.MetaData)
			return
		}
		got := rk.CoeffsQ(rQ, out.Value, decLevel, out.IsNTT, out.IsMontgomery)
		if !rk.Equal(got, rk.CenterAll(phRaw, q(p, decLevel))) {
			c.Fail("C03/decrypt/value", "%s: rlwe.Decryptor (variant %d) disagrees with the independent phase: got[0]=%v want[0]=%v",
				cf.String(), cf.dec, got[0], ref.Center(phRaw[0], q(p, decLevel)))
			return
		}

		// (v) wrong key
		phW := rk.Phase(rt, rQ, el, rk.Secret(p, skWrong))
		if w := ref.InfNorm(uni.SubCentered(phW, want, Q)); w.Cmp(wrongMax) > 0 {
			wrongMax = w
		}

		es = append(es, rk.HashPoly(e))
		c1s = append(c1s, rk.HashPoly(rk.PolyCoeffs(rQ, el.Value[1], cf.level, el.IsNTT, el.IsMontgomery)))
		for _, x := range e {
			if x.Sign() != 0 {
				nonZero++
			}
		}
		c.Outcome(path, cf.degree, ref.InfNorm(e).BitLen(), cf.isNTT, cf.mont)
	}

	// (ii) lower-bound clauses available on nSeeds·N coefficients (the σ window lives in group "stat")
	if nonZero == 0 {
		c.Fail(sig("error-all-zero"), "%s: the error of %d fresh encryptions (%d coefficients) is identically zero", cf.String(), nSeeds, nSeeds*n)
		return
	}
	allSame := func(v []string) bool {
		for _, x := range v[1:] {
			if x != v[0] {
				return false
			}
		}
		return true
	}
	if allSame(c1s) {
		c.Fail(sig("c1-repeats-across-seeds"), "%s: %d encryptions under different seeds all have the same c1", cf.String(), nSeeds)
		return
	}
	if allSame(es) {
		c.Fail(sig("error-repeats-across-seeds"), "%s: %d encryptions under different seeds all have the same error", cf.String(), nSeeds)
		return
	}
	// (v) judged on the pool of nSeeds·N coefficients: a uniform value stays below Q/8 with probability 4^-(nSeeds·N)
	if wrongMax.Cmp(new(big.Int).Rsh(Q, 3)) <= 0 {
		c.Fail(sig("wrong-key-readable"), "%s: decrypting with an independent key stays within %v of the plaintext (Q/8 = %v)", cf.String(), wrongMax, new(big.Int).Rsh(Q, 3))
	}
}
