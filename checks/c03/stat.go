package main

import (
	"fmt"
	"math/big"

	"github.com/tuneinsight/lattigo/v6/core/rlwe"
	"github.com/tuneinsight/lattigo/v6/ring"
	"github.com/tuneinsight/lattigo/v6/ring/ringqp"

	"verif/engine"
	"verif/lib/rk"
	"verif/ref"
	"verif/uni"
)

// Group "stat": the lower-bound clauses that need a pool of coefficients. One leaf = one
// configuration, ≥ poolMin coefficients pooled over repeated encryptions by ONE encryptor (and its
// ShallowCopy) at all levels. With the seed fixed every statistic is a deterministic number; the
// window [σ/2, 2σ] is ≥ 15 standard errors wide for 512 samples, so no seed can make it flaky.

const poolMin = 512

// sigma window of the property statement
func inWindow(got, nominal float64) bool { return got >= nominal/2 && got <= 2*nominal }

func statScenario(rt ring.Type, logN int, ch rk.Chain, np int) engine.Scenario {
	ch = withP(ch, np)
	name := fmt.Sprintf("stat/%s/logN%d/%s/P%d", ringName(rt), logN, ch.Name, np)
	return engine.Scenario{Name: name, Bound: -1, Fn: func(c *engine.Chooser) {
		n := 1 << logN
		xsI := c.Choose(4, "Xs")
		xeI := c.Choose(len(xeFor(ch)), "Xe")
		pk := c.Choose(2, "key") == 1
		isNTT := c.Choose(2, "IsNTT") == 0
		p := rk.Params(ch.Lit(logN, maxLogN, rt, true, xsAlphabet(n)[xsI], xeFor(ch)[xeI]))
		cfg := fmt.Sprintf("Xs=%s Xe=%s pk=%v IsNTT=%v", rk.DistName(p.Xs()), rk.DistName(p.Xe()), pk, isNTT)
		c.Note("%s", cfg)
		c.Cover("stat-Xe", rk.DistName(p.Xe()))
		c.Cover("stat-Xs", rk.DistName(p.Xs()))
		c.Cover("stat-key", fmt.Sprint(map[bool]string{false: "sk", true: "pk"}[pk]))
		uni.Seed(c, name, cfg)
		runStat(c, name, cfg, p, pk, isNTT)
	}}
}

func runStat(c *engine.Chooser, name, cfg string, p rlwe.Parameters, pk, isNTT bool) {
	rt, rQ, n, L := p.RingType(), p.RingQ(), p.N(), p.MaxLevel()
	keyName := map[bool]string{false: "sk", true: "pk"}[pk]
	gen := "C03/stat/" + keyName + "/"
	kgen := rlwe.NewKeyGenerator(p)
	sk := kgen.GenSecretKeyNew()
	pub := kgen.GenPublicKeyNew(sk)
	s := rk.Secret(p, sk)
	s2 := rk.UnfNorm2(rt, s)
	epk, _ := rk.PhaseQP(rt, p.RingQP(), pub.Value[0], pub.Value[1], L, p.MaxLevelP(), true, true, s)
	epk2 := rk.UnfNorm2(rt, epk)

	var key rlwe.EncryptionKey = sk
	if pk {
		key = pub
	}
	enc := rlwe.NewEncryptor(p, key)
	enc2 := enc.ShallowCopy()

	lowLevels := true // (was false on the class where TernarySampler.AtLevel panicked; fixed in /repo 8ff3362)
	reps := (poolMin + n - 1) / n
	var pool rk.Pool
	c1seen, eseen := map[string]bool{}, map[string]bool{}
	copyDiffers := false
	bound := encBound(p, pk)
	for r := 0; r < reps; r++ {
		level := L
		if lowLevels {
			level = L - r%(L+1)
		}
		var hs [2]string
		for w, en := range []*rlwe.Encryptor{enc, enc2} {
			ct := rlwe.NewCiphertext(p, 1, level)
			ct.IsNTT = isNTT
			if err := en.EncryptZero(ct); err != nil {
				c.Fail(gen+"error", "%s: EncryptZero: %v", cfg, err)
				return
			}
			e := rk.Phase(rt, rQ, &ct.Element, s)
			if ref.InfNorm(e).Cmp(bound) > 0 {
				c.Fail(gen+"noise-upper", "%s level %d: |e|∞=%v > %v", cfg, level, ref.InfNorm(e), bound)
				return
			}
			hs[w] = rk.HashPoly(rk.PolyCoeffs(rQ, ct.Value[1], level, ct.IsNTT, false))
			if w == 0 {
				pool.Add(e)
				c1seen[hs[0]] = true
				eseen[rk.HashPoly(e)] = true
			}
		}
		if hs[0] != hs[1] {
			copyDiffers = true
		}
	}
	c.Count(2 * reps)
	nominal := nominalSigma(p, pk, pk && p.PCount() > 0, s2, epk2)
	c.Note("pooled %d coefficients: std %.3f nominal %.3f nonzero %d", pool.N, pool.Std(), nominal, pool.NonZero)
	c.Cover("stat-ratio(empirical/nominal sigma)", fmt.Sprintf("%.1f", pool.Std()/nominal)) // evidence: how far from the window edges 0.5 / 2.0
	if pool.NonZero == 0 {
		c.Fail(gen+"error-all-zero", "%s: %d pooled error coefficients are all zero", cfg, pool.N)
		return
	}
	if !inWindow(pool.Std(), nominal) {
		c.Fail(gen+"sigma-window", "%s: empirical σ %.4f of %d pooled error coefficients outside [σ/2,2σ] of the nominal %.4f", cfg, pool.Std(), pool.N, nominal)
		return
	}
	if len(c1seen) < reps/2 {
		c.Fail(gen+"c1-repeats", "%s: only %d distinct c1 in %d successive encryptions", cfg, len(c1seen), reps)
		return
	}
	if len(eseen) < reps/2 {
		c.Fail(gen+"error-repeats", "%s: only %d distinct error polynomials in %d successive encryptions", cfg, len(eseen), reps)
		return
	}
	if !copyDiffers {
		c.Fail(gen+"shallowcopy-same-stream", "%s: an encryptor and its ShallowCopy produced the same c1 in all %d encryptions", cfg, reps)
		return
	}
	c.Outcome(cfg, int(pool.Std()*4))

	// First draws of FRESH objects, judged on their own: every repetition builds a new encryptor (and a
	// ShallowCopy of a never-used one) and pools only its first encryption. A sampler whose first
	// outputs are degenerate (lazy buffer initialisation, state that only warms up after a few calls)
	// hides in the long-run pool above (8 bad draws out of 32 move σ by 13%) but not here.
	var fresh, freshCopy rk.Pool
	for r := 0; r < reps; r++ {
		level := L - r%(L+1)
		for w, pl := range []*rk.Pool{&fresh, &freshCopy} {
			en := rlwe.NewEncryptor(p, key)
			if w == 1 {
				en = en.ShallowCopy()
			}
			ct := rlwe.NewCiphertext(p, 1, level)
			ct.IsNTT = isNTT
			if err := en.EncryptZero(ct); err != nil {
				c.Fail(gen+"error", "%s: EncryptZero: %v", cfg, err)
				return
			}
			pl.Add(rk.Phase(rt, rQ, &ct.Element, s))
		}
	}
	c.Count(2 * reps)
	for w, pl := range []*rk.Pool{&fresh, &freshCopy} {
		what := []string{"NewEncryptor", "NewEncryptor().ShallowCopy()"}[w]
		c.Cover("stat-ratio(empirical/nominal sigma)", fmt.Sprintf("%.1f", pl.Std()/nominal))
		if pl.NonZero == 0 || !inWindow(pl.Std(), nominal) {
			c.Fail(gen+"fresh-object-first-draw/sigma-window", "%s: FIRST encryption of %d fresh %s: empirical σ %.4f (nonzero %d/%d) outside [σ/2,2σ] of the nominal %.4f", cfg, reps, what, pl.Std(), pl.NonZero, pl.N, nominal)
			return
		}
	}
	c.Cover("stat-probe", "fresh-object-first-draw")

	if pk {
		statPkProbes(c, cfg, p, pub, s, isNTT, lowLevels, s2, epk2)
	}
}

// statPkProbes looks at the two error polynomials of a public-key encryption separately:
//   - over QP (Element[ringqp.Poly] target, the form used for key generation by the multiparty
//     protocols): (u·pk0 + e0, u·pk1 + e1) without the division by P, so that the σ window is that of
//     the declared distributions and not of the rounding;
//   - under the all-zero public key the output is (e0, e1) itself: both must be within the support,
//     within the σ window, and must not coincide (one error reused for both components still decrypts
//     correctly, but halves the masking).
func statPkProbes(c *engine.Chooser, cfg string, p rlwe.Parameters, pub *rlwe.PublicKey, s []*big.Int, isNTT, lowLevels bool, s2, epk2 float64) {
	rt, rQ, n, L := p.RingType(), p.RingQ(), p.N(), p.MaxLevel()
	gen := "C03/stat/pk/"
	be := big.NewInt(rk.AbsBound(p.Xe()))
	se := rk.Sigma(p.Xe(), n)
	reps := (poolMin + n - 1) / n
	encZ := rlwe.NewEncryptor(p, rlwe.NewPublicKey(p))
	encR := rlwe.NewEncryptor(p, pub)
	var p0, p1, pE rk.Pool
	same := 0
	for r := 0; r < reps; r++ {
		level := L
		if lowLevels {
			level = L - r%(L+1)
		}
		var e0, e1 []*big.Int
		if p.PCount() == 0 {
			ct := rlwe.NewCiphertext(p, 1, level)
			ct.IsNTT = isNTT
			if err := encZ.EncryptZero(ct); err != nil {
				c.Fail(gen+"error", "%s: EncryptZero under the zero public key: %v", cfg, err)
				return
			}
			e0 = rk.CoeffsQ(rQ, ct.Value[0], level, isNTT, false)
			e1 = rk.CoeffsQ(rQ, ct.Value[1], level, isNTT, false)
		} else {
			levelP := p.MaxLevelP() - r%(p.MaxLevelP()+1)
			el := rlwe.NewElementExtended(p, 1, level, levelP)
			el.IsNTT = isNTT
			if err := encZ.EncryptZero(*el); err != nil {
				c.Fail(gen+"error", "%s: EncryptZero(Element[ringqp.Poly]) under the zero public key: %v", cfg, err)
				return
			}
			a0, QP := rk.CoeffsQP(p.RingQP(), el.Value[0], level, levelP, isNTT, false)
			a1, _ := rk.CoeffsQP(p.RingQP(), el.Value[1], level, levelP, isNTT, false)
			e0, e1 = rk.CenterAll(a0, QP), rk.CenterAll(a1, QP)

			// real public key, QP target: E = u·e_pk + e0 + e1·s over QP
			el2 := rlwe.NewElementExtended(p, 1, level, levelP)
			el2.IsNTT = isNTT
			if err := encR.EncryptZero(*el2); err != nil {
				c.Fail(gen+"error", "%s: EncryptZero(Element[ringqp.Poly]): %v", cfg, err)
				return
			}
			E, _ := rk.PhaseQP(rt, p.RingQP(), el2.Value[0], el2.Value[1], level, levelP, isNTT, false, s)
			if ref.InfNorm(E).Cmp(pkErrBound(p)) > 0 {
				c.Fail(gen+"QP/noise-upper", "%s: |E|∞=%v over QP > %v", cfg, ref.InfNorm(E), pkErrBound(p))
				return
			}
			pE.Add(E)
		}
		if ref.InfNorm(e0).Cmp(be) > 0 || ref.InfNorm(e1).Cmp(be) > 0 {
			c.Fail(gen+"zero-pk/support", "%s: error component outside the declared support: |e0|∞=%v |e1|∞=%v > %v", cfg, ref.InfNorm(e0), ref.InfNorm(e1), be)
			return
		}
		if rk.Equal(e0, e1) {
			same++
		}
		p0.Add(e0)
		p1.Add(e1)
	}
	c.Count(2 * reps)
	c.Cover("stat-probe", "zero-pk")
	if same > reps/2 {
		c.Fail(gen+"zero-pk/e0==e1", "%s: the two error polynomials of a pk-encryption coincide in %d of %d encryptions", cfg, same, reps)
		return
	}
	for i, pl := range []*rk.Pool{&p0, &p1} {
		c.Cover("stat-ratio(empirical/nominal sigma)", fmt.Sprintf("%.1f", pl.Std()/se))
		if pl.NonZero == 0 || !inWindow(pl.Std(), se) {
			c.Fail(gen+"zero-pk/sigma-window", "%s: error component e%d: empirical σ %.4f (nonzero %d/%d) outside [σ/2,2σ] of the nominal %.4f", cfg, i, pl.Std(), pl.NonZero, pl.N, se)
			return
		}
	}
	if pE.N > 0 {
		c.Cover("stat-probe", "pk-QP")
		nominal := nominalSigma(p, true, false, s2, epk2)
		c.Cover("stat-ratio(empirical/nominal sigma)", fmt.Sprintf("%.1f", pE.Std()/nominal))
		if pE.NonZero == 0 || !inWindow(pE.Std(), nominal) {
			c.Fail(gen+"QP/sigma-window", "%s: QP-target pk-encryption error: empirical σ %.4f outside [σ/2,2σ] of the nominal %.4f", cfg, pE.Std(), nominal)
		}
	}
	_ = ring.Standard
	_ = ringqp.Poly{}
}
