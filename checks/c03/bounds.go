package main

import (
	"math"
	"math/big"

	"github.com/tuneinsight/lattigo/v6/core/rlwe"

	"verif/lib/rk"
)

// Upper bounds on the fresh-encryption error. All of them are deterministic consequences of the
// declared supports (|e_i| ≤ Be, |s_i|,|u_i| ≤ Bs) — never statistical tolerances — and are
// deliberately over-estimated (a sound bound matters, a tight one does not).
//
// Notation: Nm = number of terms summed into one coefficient of a ring product (N, or 2N in the
// conjugate-invariant ring), Be / Bs = rk.AbsBound of Xe / Xs.

// roundingSlack bounds |ModDown(x) − x/P| per coefficient: 1/2 for the rounding plus 1 for the
// approximate basis extension of [x]_P (C02 demands "within ±1 of round(x/P)"), rounded up to 2.
const roundingSlack = 2

// skBound: encryptZeroSk computes c0 = −c1·s + e exactly in the ring, so phase − plaintext = e and
// |e|∞ ≤ Be.
func skBound(params rlwe.Parameters) *big.Int {
	return big.NewInt(rk.AbsBound(params.Xe()))
}

// pkErrBound bounds E = u·e_pk + e0 + e1·s, the error of (u·pk0+e0, u·pk1+e1) under s, where
// pk = (−a·s + e_pk, a): c0 + c1·s = u·(pk0 + pk1·s) + e0 + e1·s = u·e_pk + e0 + e1·s.
// |u·e_pk|∞ ≤ Nm·Bs·Be, |e1·s|∞ ≤ Nm·Be·Bs, |e0|∞ ≤ Be  ⇒  |E|∞ ≤ Be·(2·Nm·Bs + 1).
// This is the whole error of encryptZeroPkNoP and of the QP-target form of encryptZeroPk.
func pkErrBound(params rlwe.Parameters) *big.Int {
	be, bs := rk.AbsBound(params.Xe()), rk.AbsBound(params.Xs())
	nm := nMul(params.RingType(), params.N())
	return big.NewInt(be * (2*nm*bs + 1))
}

// pkBoundWithP: encryptZeroPk on a ciphertext over Q works over Q·p0 (levelP = 0: only the first
// prime of P is used) and returns c_i = ModDown(w_i) with w_i = u·pk_i + e_i mod Q·p0. Write
// c_i = w_i/p0 + r_i with |r_i|∞ ≤ roundingSlack. Then p0·(c0 + c1·s) = (w0 + w1·s) + p0·(r0 + r1·s)
// and w0 + w1·s ≡ E (mod Q·p0), hence c0 + c1·s ≡ E/p0 + r0 + r1·s (mod Q) and
//
//	|error|∞ ≤ ceil(|E|∞/p0) + roundingSlack·(1 + Nm·Bs).
func pkBoundWithP(params rlwe.Parameters) *big.Int {
	e := pkErrBound(params)
	p0 := new(big.Int).SetUint64(params.P()[0])
	t := new(big.Int).Add(e, new(big.Int).Sub(p0, big.NewInt(1)))
	t.Quo(t, p0)
	bs := rk.AbsBound(params.Xs())
	nm := nMul(params.RingType(), params.N())
	return t.Add(t, big.NewInt(roundingSlack*(1+nm*bs)))
}

// encBound picks the bound for an encryption into a ciphertext over Q.
func encBound(params rlwe.Parameters, pk bool) *big.Int {
	switch {
	case !pk:
		return skBound(params)
	case params.PCount() == 0:
		return pkErrBound(params)
	default:
		return pkBoundWithP(params)
	}
}

// Nominal standard deviations (for the [σ/2, 2σ] window of the lower-bound clause). They are
// computed from the definitions of the declared distributions and from the actual secret / public-key
// error of the leaf (whose squared norms the harness knows exactly), not from rlwe.Parameters.Noise*.
//
//	sk:            σe
//	pk, no P / QP: Var(E_k) = σu²·‖e_pk‖² + σe²·(1 + ‖s‖²)     (u ~ Xs, e0,e1 ~ Xe independent)
//	pk, with P:    the ciphertext error is the rounding residue: c0 + c1·s = round(r1·s + E/p0) with r1
//	               uniform in [−1/2,1/2)^N, so Var = (1 + ‖s‖²)/12 (+ the negligible E/p0 term).
//
// Norms are those of the unfolded elements in the conjugate-invariant ring.
func nominalSigma(params rlwe.Parameters, pk, rounded bool, s2, epk2 float64) float64 {
	n := params.N()
	se := rk.Sigma(params.Xe(), n)
	su := rk.Sigma(params.Xs(), n)
	switch {
	case !pk:
		return se
	case rounded:
		return math.Sqrt((1 + s2) / 12)
	default:
		return math.Sqrt(su*su*epk2 + se*se*(1+s2))
	}
}
