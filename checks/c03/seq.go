package main

import (
	"fmt"
	"math/big"

	"github.com/tuneinsight/lattigo/v6/core/rlwe"
	"github.com/tuneinsight/lattigo/v6/ring"

	"verif/engine"
	"verif/lib/rk"
	"verif/ref"
	"verif/uni"
)

// Group "seq": state carried between calls. ONE encryptor, ONE receiver ciphertext, ONE decryptor
// (obtained by New / ShallowCopy / WithKey) and ONE receiver plaintext are used for a sequence of
// seqLen encrypt→decrypt rounds in which the plaintext level, the receiver's level (left as the
// previous round left it, raised back to the top, or lowered to 0) and the entry point change from
// round to round; ciphertexts in and out of the NTT domain. Every round is judged by the same
// oracles as a fresh call: level = min(levels involved), metadata, hard noise bound on
// phase − plaintext, rlwe.Decryptor == independent phase. A scratch buffer, a sampler view or a
// receiver that remembers the level of an earlier round shows up here and nowhere else.

const seqLen = 3

var seqEntries = []string{"Encrypt", "EncryptZero", "EncryptNew"}

func seqScenario(rt ring.Type, logN int, ch rk.Chain, np, bound int) engine.Scenario {
	ch = withP(ch, np)
	name := fmt.Sprintf("seq/%s/logN%d/%s/P%d", ringName(rt), logN, ch.Name, np)
	return engine.Scenario{Name: name, Bound: bound, Fn: func(c *engine.Chooser) {
		n := 1 << logN
		pk := c.ChooseFree(2, "key") == 1
		isNTT := c.ChooseFree(2, "IsNTT") == 0
		decVar := c.ChooseFree(3, "decryptor")
		xeI := c.Choose(3, "Xe")
		p := rk.Params(ch.Lit(logN, maxLogN, rt, isNTT, xsAlphabet(n)[0], xeAlphabet()[xeI]))
		L := p.MaxLevel()
		type step struct{ entry, ptLevel, ctPrep, outPrep int }
		steps := make([]step, seqLen)
		cfg := fmt.Sprintf("pk=%v IsNTT=%v decryptor=%d Xe=%d", pk, isNTT, decVar, xeI)
		for i := range steps {
			steps[i].entry = c.Choose(len(seqEntries), fmt.Sprintf("entry%d", i))
			steps[i].ptLevel = L - c.Choose(L+1, fmt.Sprintf("ptLevel%d", i))
			steps[i].ctPrep = c.Choose(3, fmt.Sprintf("receiver%d", i))    // 0 as left by the previous round, 1 raised to L, 2 lowered to 0
			steps[i].outPrep = c.Choose(2, fmt.Sprintf("ptReceiver%d", i)) // 0 raised to L (stale rows), 1 as left by the previous round
			cfg += fmt.Sprintf(" | %s pt@%d recv=%d out=%d", seqEntries[steps[i].entry], steps[i].ptLevel, steps[i].ctPrep, steps[i].outPrep)
		}
		c.Note("%s", cfg)
		c.Cover("seq-key", map[bool]string{false: "sk", true: "pk"}[pk])
		c.Cover("seq-IsNTT", fmt.Sprint(isNTT))
		c.Cover("seq-decryptor", []string{"New", "ShallowCopy", "WithKey"}[decVar])
		uni.Seed(c, name, cfg)

		rQ := p.RingQ()
		kgen := rlwe.NewKeyGenerator(p)
		sk := kgen.GenSecretKeyNew()
		pub := kgen.GenPublicKeyNew(sk)
		skOther := genDistinctSecret(p, kgen, sk)
		s := rk.Secret(p, sk)
		var key rlwe.EncryptionKey = sk
		if pk {
			key = pub
		}
		enc := rlwe.NewEncryptor(p, key)
		var dec *rlwe.Decryptor
		switch decVar {
		case 0:
			dec = rlwe.NewDecryptor(p, sk)
		case 1:
			dec = rlwe.NewDecryptor(p, sk).ShallowCopy()
		case 2:
			dec = rlwe.NewDecryptor(p, skOther).WithKey(sk)
		}
		ct := rlwe.NewCiphertext(p, 1, L)
		out := rlwe.NewPlaintext(p, L)
		bound := encBound(p, pk)
		keyName := map[bool]string{false: "sk", true: "pk"}[pk]
		gen := "C03/seq/" + keyName + "/"

		for i, st := range steps {
			what := fmt.Sprintf("%s round %d", cfg, i)
			switch st.ctPrep {
			case 1:
				ct.Resize(1, L)
				c.Cover("seq-receiver", "raised")
			case 2:
				ct.Resize(1, 0)
				c.Cover("seq-receiver", "lowered")
			default:
				c.Cover("seq-receiver", "as-left")
			}
			recvLevel := ct.Level()
			// plaintext of this round: distinct values per coefficient and per round
			M := plaintextPoly(0, n, q(p, st.ptLevel))
			for j := range M {
				M[j].Add(M[j], big.NewInt(int64(1000*(i+1)+j)))
			}
			pt := rlwe.NewPlaintext(p, st.ptLevel)
			pt.Scale = rlwe.NewScale(uint64(7 + i))
			pt.LogDimensions = ring.Dimensions{Rows: i & 1, Cols: 1 + i}
			rk.SetPoly(rQ, st.ptLevel, M, isNTT, false, pt.Value)
			target := ct
			wantLevel := recvLevel
			var wantMeta rlwe.MetaData
			err, pan := uni.Try(func() (err error) {
				switch seqEntries[st.entry] {
				case "Encrypt":
					if st.ptLevel < wantLevel {
						wantLevel = st.ptLevel
					}
					wantMeta = *pt.MetaData
					err = enc.Encrypt(pt, ct)
				case "EncryptZero":
					ct.Scale = rlwe.NewScale(uint64(100 + i))
					wantMeta = *ct.MetaData
					M = plaintextPoly(1, n, q(p, wantLevel))
					err = enc.EncryptZero(ct)
				case "EncryptNew":
					wantLevel = st.ptLevel
					wantMeta = *pt.MetaData
					target, err = enc.EncryptNew(pt)
				}
				return
			})
			if pan != nil {
				c.Fail(gen+"panic", "%s: %s panicked: %v", what, seqEntries[st.entry], pan)
				return
			}
			if err != nil {
				c.Fail(gen+"error", "%s: %s: %v", what, seqEntries[st.entry], err)
				return
			}
			if target.Level() != wantLevel || target.Degree() != 1 {
				c.Fail(gen+"level", "%s: ciphertext level %d degree %d, want level min(pt %d, receiver %d) = %d", what, target.Level(), target.Degree(), st.ptLevel, recvLevel, wantLevel)
				return
			}
			if !metaEqual(target.MetaData, &wantMeta) {
				c.Fail(gen+"metadata", "%s: ciphertext metadata %+v, want %+v", what, *target.MetaData, wantMeta)
				return
			}
			Q := q(p, wantLevel)
			ph := rk.Phase(rt, rQ, &target.Element, s)
			e := uni.SubCentered(ph, rk.CenterAll(M, Q), Q)
			if ref.InfNorm(e).Cmp(bound) > 0 {
				c.Fail(gen+"noise-upper", "%s: |phase − plaintext|∞ = %d bits > bound %v", what, ref.InfNorm(e).BitLen(), bound)
				return
			}
			// decrypt into the one receiver plaintext
			if st.outPrep == 0 {
				out.Resize(0, L)
			}
			decLevel := wantLevel
			if out.Level() < decLevel {
				decLevel = out.Level()
			}
			if _, pan := uni.Try(func() error { dec.Decrypt(target, out); return nil }); pan != nil {
				c.Fail("C03/seq/decrypt/panic", "%s: Decrypt panicked: %v", what, pan)
				return
			}
			if out.Level() != decLevel {
				c.Fail("C03/seq/decrypt/level", "%s: decrypted level %d, want min(ct %d, receiver) = %d", what, out.Level(), wantLevel, decLevel)
				return
			}
			if !metaEqual(out.MetaData, target.MetaData) {
				c.Fail("C03/seq/decrypt/metadata", "%s: decrypted metadata %+v != ciphertext metadata %+v", what, *out.MetaData, *target.MetaData)
				return
			}
			got := rk.CoeffsQ(rQ, out.Value, decLevel, out.IsNTT, out.IsMontgomery)
			if !rk.Equal(got, rk.CenterAll(ph, q(p, decLevel))) {
				c.Fail("C03/seq/decrypt/value", "%s: rlwe.Decryptor (variant %d, reused receiver) disagrees with the independent phase", what, decVar)
				return
			}
			// the Element view of the receiver plaintext must show the same polynomial as .Value
			got2 := rk.CoeffsQ(rQ, out.Element.Value[0], decLevel, out.IsNTT, out.IsMontgomery)
			if !rk.Equal(got, got2) {
				c.Fail("C03/seq/decrypt/plaintext-views-diverge", "%s: after Decrypt into a reused plaintext, pt.Value and pt.El().Value[0] hold different polynomials", what)
				return
			}
			// the same decryptor and receiver on a degree-2 and a degree-3 ciphertext (the Horner loop with
			// its scratch buffer): decryption is a pure function of the ciphertext, so uniform components do
			for deg := 2; deg <= 3; deg++ {
				ctd := rlwe.NewCiphertext(p, deg, wantLevel)
				smp := ring.NewUniformSampler(uni.KeyedPRNG("c03-seq", name, cfg, i, deg), rQ).AtLevel(wantLevel)
				for d := range ctd.Value {
					smp.Read(ctd.Value[d])
				}
				ctd.IsNTT = isNTT
				if i == 0 {
					out.Resize(0, L)
				}
				dl := wantLevel
				if out.Level() < dl {
					dl = out.Level()
				}
				dec.Decrypt(ctd, out)
				gotd := rk.CoeffsQ(rQ, out.Value, dl, out.IsNTT, out.IsMontgomery)
				if out.Level() != dl || !rk.Equal(gotd, rk.CenterAll(rk.Phase(rt, rQ, &ctd.Element, s), q(p, dl))) {
					c.Fail("C03/seq/decrypt/value-degree>1", "%s: Decrypt of a degree-%d ciphertext (IsNTT=%v, decryptor variant %d, reused receiver) disagrees with the independent phase (level %d, want %d)", what, deg, isNTT, decVar, out.Level(), dl)
					return
				}
			}
			c.Outcome("seq", keyName, wantLevel, decLevel, ref.InfNorm(e).BitLen())
		}
		c.Count(seqLen)
	}}
}
