package main

import (
	"fmt"
	"math/big"

	"github.com/tuneinsight/lattigo/v6/core/rlwe"
	"github.com/tuneinsight/lattigo/v6/ring"

	"verif/engine"
	"verif/lib/rk"
	"verif/ref"
	"verif/uni"
)

// Group "keys": every row of the keys produced by KeyGenerator.GenPublicKey / GenRelinearizationKey /
// GenGaloisKey / GenEvaluationKey is an RLWE sample over QP under the right key, of the right
// plaintext, with an error inside the two-sided bound.
//
// Plaintext of row (i,j) of a gadget ciphertext (core/rlwe/gadgetciphertext.go,
// AddPolyTimesGadgetVectorToGadgetCiphertext): P·2^(b·j)·s_in on the residues of the primes
// q_(i·(levelP+1)+k), k = 0..levelP (those that exist: index ≤ levelQ), and 0 on every other prime of
// Q and on P (without P, levelP = −1: factor 1 and one prime per row). As an integer mod QP that is
// T_ij = CRT(those residues) — recomputed here coefficient by coefficient with math/big.

const keyPoolMin = 256

var base2Alphabet = []int{0, 1, 2, 7, 13, 16, 30}

var keyKinds = []string{"rlk", "gk", "evk"}

func modInverse(g, m uint64) uint64 {
	for h := uint64(1); h < m; h += 2 {
		if (g*h)%m == 1 {
			return h
		}
	}
	panic("no inverse")
}

// gadgetRowPlaintext returns the integer polynomial T_ij(sIn) mod QP described above.
func gadgetRowPlaintext(p rlwe.Parameters, levelQ, levelP, base2, i, j int, sIn []*big.Int) []*big.Int {
	qs := p.Q()[:levelQ+1]
	var ps []uint64
	if levelP >= 0 {
		ps = p.P()[:levelP+1]
	}
	factor := ref.Prod(ps) // 1 when there is no P
	factor.Lsh(factor, uint(base2*j))
	group := levelP + 1
	if group == 0 {
		group = 1
	}
	moduli := append(append([]uint64{}, qs...), ps...)
	rows := make([][]uint64, len(moduli))
	for idx := range rows {
		rows[idx] = make([]uint64, len(sIn))
	}
	for w := range sIn {
		v := new(big.Int).Mul(factor, sIn[w])
		for idx := range moduli {
			if idx <= levelQ && idx/group == i {
				rows[idx][w] = ref.ModU(v, moduli[idx])
			}
		}
	}
	return rk.PolyCRT(rows, moduli)
}

type keyJudge struct {
	c     *engine.Chooser
	p     rlwe.Parameters
	cfg   string
	gen   string
	pool  rk.Pool
	c1s   map[string]bool
	rows  int
	known string
}

// judgeGadget checks every row of gct against sIn (plaintext) and sOut (key).
func (kj *keyJudge) judgeGadget(gct *rlwe.GadgetCiphertext, sIn, sOut []*big.Int) bool {
	p, c := kj.p, kj.c
	rt := p.RingType()
	levelQ, levelP, base2 := gct.LevelQ(), gct.LevelP(), gct.BaseTwoDecomposition
	be := big.NewInt(rk.AbsBound(p.Xe()))
	// shape: number of rows per the documented digit counts (params.go)
	wantRows := levelQ + 1
	if levelP >= 0 {
		wantRows = (levelQ + levelP + 1) / (levelP + 1)
	}
	if len(gct.Value) != wantRows {
		c.Fail(kj.gen+"shape", "%s: %d RNS rows, want ceil(#Q/#P) = %d", kj.cfg, len(gct.Value), wantRows)
		return false
	}
	for i := range gct.Value {
		// (the number of base-2^b digits per prime is taken from the key: whether it is sufficient is a
		// functional question, judged by C04 on the result of the gadget product)
		if len(gct.Value[i]) < 1 {
			c.Fail(kj.gen+"shape", "%s: row %d has no digit", kj.cfg, i)
			return false
		}
		for j := range gct.Value[i] {
			row := gct.Value[i][j]
			if len(row) != 2 {
				c.Fail(kj.gen+"shape", "%s: row (%d,%d) has %d components", kj.cfg, i, j, len(row))
				return false
			}
			ph, QP := rk.PhaseQP(rt, p.RingQP(), row[0], row[1], levelQ, levelP, true, true, sOut)
			T := gadgetRowPlaintext(p, levelQ, levelP, base2, i, j, sIn)
			e := uni.SubCentered(ph, T, QP)
			if ref.InfNorm(e).Cmp(be) > 0 {
				c.Fail(kj.gen+"row-noise-upper", "%s: row (%d,%d): |phase − P·2^(b·j)·s_in·[row primes]|∞ = %d bits > declared support %v", kj.cfg, i, j, ref.InfNorm(e).BitLen(), be)
				return false
			}
			kj.pool.Add(e)
			a, _ := rk.CoeffsQP(p.RingQP(), row[1], levelQ, levelP, true, true)
			kj.c1s[rk.HashPoly(a)] = true
			kj.rows++
		}
	}
	return true
}

// finish applies the pooled lower-bound clauses.
func (kj *keyJudge) finish() {
	c, p := kj.c, kj.p
	se := rk.Sigma(p.Xe(), p.N())
	c.Note("%s: %d rows, %d pooled coefficients, std %.3f (nominal %.3f)", kj.cfg, kj.rows, kj.pool.N, kj.pool.Std(), se)
	c.Cover("stat-ratio(empirical/nominal sigma)", fmt.Sprintf("%.1f", kj.pool.Std()/se))
	if kj.pool.NonZero == 0 {
		c.Fail(kj.gen+"error-all-zero", "%s: all %d pooled error coefficients of the key rows are zero", kj.cfg, kj.pool.N)
		return
	}
	if !inWindow(kj.pool.Std(), se) {
		c.Fail(kj.gen+"sigma-window", "%s: empirical σ %.4f of %d pooled row-error coefficients outside [σ/2,2σ] of the nominal %.4f", kj.cfg, kj.pool.Std(), kj.pool.N, se)
		return
	}
	// uniform over QP ≥ 2^30 with N ≥ 16 coefficients: two equal masks have probability ≤ 2^-480
	if len(kj.c1s) != kj.rows {
		c.Fail(kj.gen+"mask-repeats", "%s: only %d distinct uniform components in %d rows (over all generations, in-place regeneration included)", kj.cfg, len(kj.c1s), kj.rows)
	}
}

func keyScenario(rt ring.Type, logN int, ch rk.Chain, np int, kind string, bound int, allGalois bool) engine.Scenario {
	ch = withP(ch, np)
	name := fmt.Sprintf("keys/%s/%s/logN%d/%s/P%d", kind, ringName(rt), logN, ch.Name, np)
	return engine.Scenario{Name: name, Bound: bound, Fn: func(c *engine.Chooser) {
		n := 1 << logN
		xeI := c.Choose(len(xeFor(ch)), "Xe")
		xsI := []int{0, 3}[c.Choose(2, "Xs")]
		p := rk.Params(ch.Lit(logN, maxLogN, rt, true, xsAlphabet(n)[xsI], xeFor(ch)[xeI]))
		L := p.MaxLevel()
		if kind == "pk" {
			cfg := fmt.Sprintf("pk Xs=%s Xe=%s", rk.DistName(p.Xs()), rk.DistName(p.Xe()))
			uni.Seed(c, name, cfg)
			runPublicKey(c, cfg, p)
			return
		}
		levelQ := L - c.ChooseFree(L+1, "LevelQ")
		levelP := p.MaxLevelP() - c.ChooseFree(p.MaxLevelP()+2, "LevelP")
		base2 := base2Alphabet[c.Choose(len(base2Alphabet), "BaseTwoDecomposition")]
		compressed := c.Bool("Compressed")
		var galEl uint64
		if kind == "gk" {
			els := []uint64{p.GaloisElement(1), p.GaloisElement(-1)}
			if rt == ring.Standard {
				els = append(els, uint64(2*n-1))
				if allGalois { // the whole group (thorough tier, first two Q shapes)
					els = nil
					for g := uint64(3); g < uint64(2*n); g += 2 {
						els = append(els, g)
					}
				}
			}
			galEl = els[c.ChooseFree(len(els), "galEl")]
		}
		cfg := fmt.Sprintf("%s Xs=%s Xe=%s LevelQ=%d LevelP=%d base2=%d compressed=%v galEl=%d", kind, rk.DistName(p.Xs()),
			rk.DistName(p.Xe()), levelQ, levelP, base2, compressed, galEl)
		c.Note("%s", cfg)
		c.Cover("keys-kind", kind)
		c.Cover("keys-base2", fmt.Sprint(base2))
		c.Cover("keys-compressed", fmt.Sprint(compressed))
		c.Cover("keys-LevelP", fmt.Sprint(levelP))
		if levelQ < L {
			c.Cover("keys-LevelQ", "below-max")
		} else {
			c.Cover("keys-LevelQ", "max")
		}
		if levelP >= 0 && (levelQ+1)%(levelP+1) != 0 {
			c.Cover("keys-tail", "#P-does-not-divide-#Q")
		}
		kj := &keyJudge{c: c, p: p, cfg: cfg, gen: "C03/keys/" + kind + "/", c1s: map[string]bool{}}
		evkp := rlwe.EvaluationKeyParameters{LevelQ: &levelQ, LevelP: &levelP, BaseTwoDecomposition: &base2, Compressed: compressed}
		// Several keys (at least two) until the pool is large enough for the lower-bound clauses. The
		// first comes from the Gen*KeyNew constructor; the following ones are generated IN PLACE into one
		// and the same key object (GenRelinearizationKey / GenGaloisKey / GenEvaluationKey), as an
		// application that rotates its keys does. A regenerated key must carry fresh masks: all uniform
		// components of all rows of all generations must be pairwise distinct (finish()).
		var rlkObj *rlwe.RelinearizationKey
		var gkObj *rlwe.GaloisKey
		var evkObj *rlwe.EvaluationKey
		for rep := 0; (rep < 2 || kj.pool.N < keyPoolMin) && rep < 32; rep++ {
			uni.Seed(c, name, cfg, rep)
			kgen := rlwe.NewKeyGenerator(p)
			sk := kgen.GenSecretKeyNew()
			s := rk.Secret(p, sk)
			var gct *rlwe.GadgetCiphertext
			var evk *rlwe.EvaluationKey
			var sIn, sOut []*big.Int
			err, pan := uni.Try(func() error {
				switch kind {
				case "rlk":
					if rep == 0 {
						rlkObj = kgen.GenRelinearizationKeyNew(sk, evkp)
					} else {
						kgen.GenRelinearizationKey(sk, rlkObj)
					}
					evk, sIn, sOut = &rlkObj.EvaluationKey, rk.Mul(rt, s, s), s
				case "gk":
					if rep == 0 {
						gkObj = kgen.GenGaloisKeyNew(galEl, sk, evkp)
					} else {
						kgen.GenGaloisKey(galEl, sk, gkObj)
					}
					if gkObj.GaloisElement != galEl || gkObj.NthRoot != p.RingQ().NthRoot() {
						return fmt.Errorf("GaloisKey fields: GaloisElement=%d NthRoot=%d", gkObj.GaloisElement, gkObj.NthRoot)
					}
					// the key re-encrypts from s to π_(g^-1)(s); the evaluator applies π_g afterwards
					evk, sIn, sOut = &gkObj.EvaluationKey, s, rk.Auto(rt, s, modInverse(galEl, p.RingQ().NthRoot()))
				case "evk":
					sk2 := kgen.GenSecretKeyNew()
					if rep == 0 {
						evkObj = kgen.GenEvaluationKeyNew(sk, sk2, evkp)
					} else {
						kgen.GenEvaluationKey(sk, sk2, evkObj)
					}
					evk, sIn, sOut = evkObj, s, rk.Secret(p, sk2)
				}
				if compressed {
					if !evk.IsCompressed() || evk.Seed == nil || evk.Degree() != 0 {
						return fmt.Errorf("compressed key: IsCompressed=%v Seed=%v Degree=%d", evk.IsCompressed(), evk.Seed != nil, evk.Degree())
					}
					// expand a deep copy: the key object itself stays compressed for the next generation
					seed := *evk.Seed
					cp := &rlwe.EvaluationKey{GadgetCiphertext: *evk.GadgetCiphertext.CopyNew(), Seed: &seed}
					var buf *rlwe.GadgetCiphertext
					if rep%2 == 1 {
						buf = rlwe.NewGadgetCiphertext(p, 0, levelQ, levelP, base2)
					}
					if err := cp.Expand(p, buf); err != nil {
						return fmt.Errorf("Expand: %w", err)
					}
					evk = cp
				}
				gct = &evk.GadgetCiphertext
				return nil
			})
			if pan != nil {
				c.Fail(kj.sig("panic"), "%s: key generation panicked: %v", cfg, pan)
				return
			}
			if err != nil {
				c.Fail(kj.sig("error"), "%s: %v", cfg, err)
				return
			}
			before := kj.rows
			if !kj.judgeGadget(gct, sIn, sOut) {
				return
			}
			c.Count(kj.rows - before)
		}
		kj.finish()
		c.Outcome(kind, levelQ, levelP, base2, compressed, kj.rows)
	}}
}

func (kj *keyJudge) sig(clause string) string {
	if kj.known != "" {
		return kj.known
	}
	return kj.gen + clause
}

// runPublicKey: pk = (−a·s + e, a) over the full QP, NTT + Montgomery.
func runPublicKey(c *engine.Chooser, cfg string, p rlwe.Parameters) {
	rt := p.RingType()
	gen := "C03/keys/pk/"
	be := big.NewInt(rk.AbsBound(p.Xe()))
	se := rk.Sigma(p.Xe(), p.N())
	var pool rk.Pool
	seen := map[string]bool{}
	kgen := rlwe.NewKeyGenerator(p)
	reps := (keyPoolMin + p.N() - 1) / p.N()
	for r := 0; r < reps; r++ {
		sk := kgen.GenSecretKeyNew()
		var pk *rlwe.PublicKey
		if r%2 == 0 {
			pk = kgen.GenPublicKeyNew(sk)
		} else {
			_, pk = kgen.GenKeyPairNew()
			pk = rlwe.NewPublicKey(p)
			kgen.GenPublicKey(sk, pk)
		}
		e, _ := rk.PhaseQP(rt, p.RingQP(), pk.Value[0], pk.Value[1], p.MaxLevelQ(), p.MaxLevelP(), true, true, rk.Secret(p, sk))
		if ref.InfNorm(e).Cmp(be) > 0 {
			c.Fail(gen+"noise-upper", "%s: |pk0 + pk1·s|∞ over QP = %d bits > declared support %v", cfg, ref.InfNorm(e).BitLen(), be)
			return
		}
		pool.Add(e)
		a, _ := rk.CoeffsQP(p.RingQP(), pk.Value[1], p.MaxLevelQ(), p.MaxLevelP(), true, true)
		seen[rk.HashPoly(a)] = true
	}
	// the FIRST public key of fresh key generators, judged on its own (see stat.go: first draws)
	var first rk.Pool
	for r := 0; r < reps; r++ {
		kg := rlwe.NewKeyGenerator(p)
		sk, pk := kg.GenKeyPairNew()
		e, _ := rk.PhaseQP(rt, p.RingQP(), pk.Value[0], pk.Value[1], p.MaxLevelQ(), p.MaxLevelP(), true, true, rk.Secret(p, sk))
		if ref.InfNorm(e).Cmp(be) > 0 {
			c.Fail(gen+"noise-upper", "%s: first public key of a fresh KeyGenerator: error of %d bits", cfg, ref.InfNorm(e).BitLen())
			return
		}
		first.Add(e)
	}
	if first.NonZero == 0 || !inWindow(first.Std(), se) {
		c.Fail(gen+"fresh-object-first-draw/sigma-window", "%s: FIRST public key of %d fresh KeyGenerators: empirical σ %.4f (nonzero %d/%d) outside [σ/2,2σ] of the nominal %.4f", cfg, reps, first.Std(), first.NonZero, first.N, se)
		return
	}
	c.Count(2 * reps)
	c.Cover("keys-kind", "pk")
	if pool.NonZero == 0 || !inWindow(pool.Std(), se) {
		c.Fail(gen+"sigma-window", "%s: empirical σ %.4f (nonzero %d/%d) of the public-key error outside [σ/2,2σ] of the nominal %.4f", cfg, pool.Std(), pool.NonZero, pool.N, se)
		return
	}
	if len(seen) < reps/2 {
		c.Fail(gen+"mask-repeats", "%s: only %d distinct uniform components in %d public keys", cfg, len(seen), reps)
	}
	c.Outcome("pk", int(pool.Std()*4))
}
