package main

import (
	"fmt"
	"math/big"

	"github.com/tuneinsight/lattigo/v6/core/rlwe"
	"github.com/tuneinsight/lattigo/v6/ring"

	"verif/engine"
	"verif/lib/rk"
	"verif/ref"
	"verif/uni"
)

// Group "flags": the full cross of {secret key, public key} × IsNTT × IsMontgomery × level × target kind,
// for every ring type, chain shape and #P (0, 1, 2): the phase is read exactly as the flags of the
// output dictate. Target kinds:
//
//	ct1   *Ciphertext of degree 1 (Encrypt and EncryptZero)
//	ct0   *Ciphertext of degree 0, the seed-compressed form (secret key only; c1 re-derived from the key)
//	qp    Element[ringqp.Poly] over Q·P at every LevelP (EncryptZero; the form used for key material)
//
// The deviation-bounded enc/* group reaches e.g. {pk, IsNTT=false, IsMontgomery=true} only at three
// deviations; the four flag cells are exactly where the code paths of the encryptor fork.
var flagTargets = []string{"ct1/Encrypt", "ct1/EncryptZero", "ct0/EncryptZero", "qp/EncryptZero"}

const sigSkQPMont = "C03/Encryptor[sk].EncryptZero(Element[ringqp.Poly])/IsMontgomery=false-target/output-in-Montgomery-domain"

func flagsScenario(rt ring.Type, logN int, ch rk.Chain, np int) engine.Scenario {
	ch = withP(ch, np)
	name := fmt.Sprintf("flags/%s/logN%d/%s/P%d", ringName(rt), logN, ch.Name, np)
	return engine.Scenario{Name: name, Bound: -1, Fn: func(c *engine.Chooser) {
		n := 1 << logN
		p := rk.Params(ch.Lit(logN, maxLogN, rt, true, xsAlphabet(n)[0], xeAlphabet()[0]))
		L := p.MaxLevel()
		pk := c.ChooseFree(2, "key") == 1
		isNTT := c.ChooseFree(2, "IsNTT") == 0
		mont := c.ChooseFree(2, "IsMontgomery") == 1
		level := L - c.ChooseFree(L+1, "level")
		target := flagTargets[c.ChooseFree(len(flagTargets), "target")]
		c.Cover("flags-cell", fmt.Sprintf("%s/IsNTT=%v/IsMontgomery=%v", map[bool]string{false: "sk", true: "pk"}[pk], isNTT, mont))
		c.Cover("flags-target", target)
		switch target {
		case "ct1/Encrypt", "ct1/EncryptZero", "ct0/EncryptZero":
			cf := encCfg{params: p, pk: pk, level: level, ctLevel: level, ptLevel: level, degree: 1, isNTT: isNTT, mont: mont, pat: 0}
			cf.entry = entEncrypt
			if target != "ct1/Encrypt" {
				cf.entry, cf.pat = entEncryptZero, 1
			}
			if target == "ct0/EncryptZero" {
				if pk {
					c.Skip("a public-key encryption has no compressed form")
					return
				}
				cf.degree, cf.prov = 0, provWithPRNG
			}
			runEnc(c, name, cf)
		case "qp/EncryptZero":
			if p.PCount() == 0 {
				c.Skip("no P")
				return
			}
			levelP := p.MaxLevelP() - c.ChooseFree(p.MaxLevelP()+1, "LevelP")
			cfg := fmt.Sprintf("qp pk=%v IsNTT=%v IsMontgomery=%v level=%d LevelP=%d", pk, isNTT, mont, level, levelP)
			c.Note("%s", cfg)
			gen := "C03/flags/qp/" + map[bool]string{false: "sk", true: "pk"}[pk] + "/"
			bound := big.NewInt(rk.AbsBound(p.Xe()))
			if pk {
				bound = pkErrBound(p)
			}
			nz := 0
			for k := 0; k < nSeeds; k++ {
				uni.Seed(c, name, cfg, k)
				kgen := rlwe.NewKeyGenerator(p)
				sk, pub := kgen.GenKeyPairNew()
				var key rlwe.EncryptionKey = sk
				if pk {
					key = pub
				}
				el := rlwe.NewElementExtended(p, 1, level, levelP)
				el.IsNTT, el.IsMontgomery = isNTT, mont
				err, pan := uni.Try(func() error { return rlwe.NewEncryptor(p, key).EncryptZero(*el) })
				if pan != nil || err != nil {
					c.Fail(gen+"error", "%s: EncryptZero(Element[ringqp.Poly]): %v %v", cfg, err, pan)
					return
				}
				e, _ := rk.PhaseQP(rt, p.RingQP(), el.Value[0], el.Value[1], level, levelP, el.IsNTT, el.IsMontgomery, rk.Secret(p, sk))
				if ref.InfNorm(e).Cmp(bound) > 0 {
					sig := gen + "noise-upper"
					if !pk && !mont {
						sig = sigSkQPMont
					}
					c.Fail(sig, "%s: |phase|∞ over QP, read as the flags dictate, = %d bits > bound %v", cfg, ref.InfNorm(e).BitLen(), bound)
					return
				}
				for _, x := range e {
					if x.Sign() != 0 {
						nz++
					}
				}
			}
			c.Count(nSeeds)
			if nz == 0 {
				c.Fail(gen+"error-all-zero", "%s: error identically zero over %d encryptions", cfg, nSeeds)
			}
			c.Outcome("flags-qp", pk, isNTT, mont)
		}
	}}
}
