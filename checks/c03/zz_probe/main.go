package main

import (
	"fmt"
	"runtime/debug"

	"github.com/tuneinsight/lattigo/v6/core/rlwe"
	"github.com/tuneinsight/lattigo/v6/utils/sampling"

	"verif/uni"
)

func main() {
	sampling.VerifSeed(7)
	params := uni.TinyRLWE(4, 3, 30, 1, 30, true)
	kgen := rlwe.NewKeyGenerator(params)
	sk := kgen.GenSecretKeyNew()
	encSk := rlwe.NewEncryptor(params, sk)
	lq, lp := params.MaxLevelQ(), -1
	defer func() {
		if r := recover(); r != nil {
			fmt.Println(r)
			fmt.Println(string(debug.Stack()))
		}
	}()
	sk2 := kgen.GenSecretKeyNew()
	evk := kgen.GenEvaluationKeyNew(sk, sk2, rlwe.EvaluationKeyParameters{LevelQ: &lq, LevelP: &lp})
	fmt.Println("keygen ok", len(evk.Value), len(evk.Value[0]))
	eval := rlwe.NewEvaluator(params, nil)
	ct := encSk.EncryptZeroNew(params.MaxLevel())
	out := rlwe.NewCiphertext(params, 1, params.MaxLevel())
	fmt.Println(eval.ApplyEvaluationKey(ct, evk, out))
}
