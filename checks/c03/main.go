// C03 — decryption inverts encryption with noise inside a two-sided bound.
//
// The real Encryptor / Decryptor / KeyGenerator are driven over a deviation-bounded product of
// parameter literals × encryptor provenance × entry points × target shapes and flags; every result is
// judged by an independent phase computation (CRT + integer schoolbook product with the secret lifted
// to Z, package verif/lib/rk) against hard, support-derived noise bounds (bounds.go), plus the
// lower-bound clauses (error present, fresh per call, σ inside [σ/2,2σ] on pools of ≥512
// coefficients, unreadable under an independent key) and a row-by-row inspection of every key the
// KeyGenerator emits.
package main

import (
	"fmt"
	"time"

	"github.com/tuneinsight/lattigo/v6/ring"

	"verif/engine"
)

func scenarios(tier string) []engine.Scenario {
	// Scenario i runs on worker i mod 16: the catalogue is emitted group by group so that scenarios of
	// one kind (= similar cost) are spread over all workers.
	groups := map[string][]engine.Scenario{}
	order := []string{"gk", "rlk", "evk", "enc", "seq", "kgenseq", "stat", "pk", "compressed", "flags", "known"}
	bound, nps, logNs := 2, []int{0, 1, 2}, []int{4, 5}
	if tier == "thorough" {
		bound, nps = 3, []int{0, 1, 2, 3}
	}
	for _, rt := range []ring.Type{ring.Standard, ring.ConjugateInvariant} {
		for ci, ch := range qChains(tier) {
			for _, np := range nps {
				lns := logNs
				if tier == "thorough" {
					lns = []int{4, 5, 6}
				}
				for _, logN := range lns {
					groups["enc"] = append(groups["enc"], encScenario(rt, logN, ch, np, bound))
					if ci == 0 && logN == 4 {
						groups["known"] = append(groups["known"], knownEncScenario(rt, logN, ch, np))
					}
					groups["stat"] = append(groups["stat"], statScenario(rt, logN, ch, np))
					groups["compressed"] = append(groups["compressed"], compressedScenario(rt, logN, ch, np))
					if logN == 4 || tier == "thorough" {
						groups["flags"] = append(groups["flags"], flagsScenario(rt, logN, ch, np))
					}
					if logN == 5 && (ci < 2 || tier == "thorough") && np < 2 {
						sl := 2
						if tier == "thorough" {
							sl = 3
						}
						groups["kgenseq"] = append(groups["kgenseq"], kgenSeqScenario(rt, logN, ch, np, sl))
					}
					if logN == 4 || tier == "thorough" {
						groups["seq"] = append(groups["seq"], seqScenario(rt, logN, ch, np, 2))
					}
					if logN == 4 || (logN == 5 && ci == 0) {
						for _, kind := range keyKinds {
							groups[kind] = append(groups[kind], keyScenario(rt, logN, ch, np, kind, bound, tier == "thorough"))
						}
						groups["pk"] = append(groups["pk"], keyScenario(rt, logN, ch, np, "pk", -1, false))
					}
				}
			}
		}
	}
	var scs []engine.Scenario
	for _, g := range order {
		scs = append(scs, groups[g]...)
	}
	return scs
}

func expect(tier string) []string {
	e := []string{"ring=Std", "ring=CI", "P=0", "P=1", "P=2", "key=sk", "key=pk", "path=sk", "path=pkNoP", "path=pkWithP",
		"degree=0", "degree=1", "degree=2", "IsNTT=true", "IsNTT=false", "IsMontgomery=true", "IsMontgomery=false",
		"level=max", "level=below-max", "levels=ct!=pt", "target=stale", "NTTFlag=true", "NTTFlag=false",
		"dec=0", "dec=1", "dec=2", "stat-key=sk", "stat-key=pk", "stat-probe=zero-pk", "stat-probe=pk-QP", "stat-probe=fresh-object-first-draw", "kgenseq-probe=pooled-pk-encryption-after-history", "compressed-IsNTT=true", "compressed-IsNTT=false", "compressed-NTTFlag=true", "compressed-NTTFlag=false", "compressed-level=max", "compressed-level=below-max",
		"keys-kind=pk", "keys-kind=rlk", "keys-kind=gk", "keys-kind=evk", "keys-compressed=true", "keys-compressed=false",
		"keys-LevelP=-1", "keys-LevelP=0", "keys-LevelP=1", "keys-LevelQ=below-max", "keys-LevelQ=max", "keys-tail=#P-does-not-divide-#Q"}
	for _, k := range []string{sigMontSk, sigMontPkNoP, sigDeg2Sk, sigDeg0Pk, "none(control)"} {
		e = append(e, "known-class="+k)
	}
	for _, k := range []string{"sk", "pk"} {
		for _, a := range []bool{true, false} {
			for _, b := range []bool{true, false} {
				e = append(e, fmt.Sprintf("flags-cell=%s/IsNTT=%v/IsMontgomery=%v", k, a, b))
			}
		}
	}
	for _, tg := range flagTargets {
		e = append(e, "flags-target="+tg)
	}
	for _, n := range kgenOps {
		e = append(e, "kgenseq-op="+n)
	}
	for _, n := range provNames {
		e = append(e, "prov="+n)
	}
	for _, n := range entNames {
		e = append(e, "entry="+n)
	}
	for _, n := range ptNames {
		e = append(e, "pt="+n)
	}
	for _, b := range base2Alphabet {
		e = append(e, fmt.Sprintf("keys-base2=%d", b))
	}
	for _, n := range []string{"TernaryP0.67", "TernaryP0.50", "TernaryH4", "Gauss(3.2,19.2)"} {
		e = append(e, "Xs="+n)
	}
	for _, n := range []string{"Gauss(3.2,19.2)", "Gauss(1,6)", "TernaryP0.50"} {
		e = append(e, "Xe="+n, "stat-Xe="+n)
	}
	for _, n := range []string{"Gauss(2.15e+09,1.29e+10)", "Gauss(8.59e+09,5.15e+10)", "Gauss(1.1e+12,6.6e+12)"} { // σ = 2^31, 2^33, 2^40
		e = append(e, "Xe="+n, "stat-Xe="+n)
	}
	return e
}

func main() {
	engine.Main(engine.Check{
		ID:    "C03",
		Level: "exploration",
		Rule: "enc/*: every configuration with at most 2 (quick) / 3 (thorough) non-default answers over the axes {Xs, Xe, NTTFlag, key kind, " +
			"encryptor constructor, entry point, level, target degree, stale target, IsNTT, IsMontgomery, plaintext polynomial, ct/pt level mismatch, decryptor variant} " +
			"for every (ring type, Q shape, #P); 4 independent (key, seed) pairs per configuration. stat/*: full product Xs×Xe×key×IsNTT, ≥512 pooled coefficients each. " +
			"keys/*: every (LevelQ, LevelP) × ≤2/3 deviations over {Xe, Xs, BaseTwoDecomposition, Compressed} (+ Galois element), every row of every key. " +
			"Distinct = distinct (path, degree, flags, noise magnitude) outcome classes.",
		Assumptions: []string{
			"IsMontgomery / IsNTT flags are read as documented (rlwe.CiphertextMetaData: 'flag indicating if the ciphertext is in the Montgomery/NTT domain'): the polynomial a ciphertext or plaintext stands for is its value taken out of the flagged domains",
			"a degree-0 target of a secret-key encryptor is the documented compressed form: the caller regenerates c1 from the PRNG it supplied (WithPRNG / NewTestEncryptorWithPRNG)",
			"noise upper bounds are worst-case consequences of the declared supports (Gaussian: ceil(Bound); ternary: 1), lower-bound statistics are pooled over ≥512 (keys: ≥256) coefficients",
			"public-key encryption into a ciphertext over Q uses only the first prime of P (levelP = 0), as the code path does",
		},
		Scenarios:      scenarios,
		QuickBudget:    140 * time.Second,
		ThoroughBudget: 25 * time.Minute,
		Expect:         expect,
	})
}
