package main

import (
	"fmt"
	"math"
	"math/big"

	"github.com/tuneinsight/lattigo/v6/core/rlwe"
	"github.com/tuneinsight/lattigo/v6/ring"

	"verif/lib/rk"
	"verif/ref"
)

// maxLogN is the degree all primes are made NTT-friendly for (≡ 1 mod 2^(maxLogN+2)).
const maxLogN = 6

// qChains are the shapes of Q (DESIGN §5: 30-bit, 55/60-bit and mixed sizes, #Q in 1..6).
func qChains(tier string) []rk.Chain {
	cs := []rk.Chain{
		{Name: "q30x3", QBits: []int{30, 30, 30}},
		{Name: "q60x2", QBits: []int{60, 60}},
		{Name: "mixed", QBits: []int{60, 30, 45}},
		{Name: "q55x1", QBits: []int{55}},
	}
	if tier == "thorough" {
		cs = append(cs, rk.Chain{Name: "q30x6", QBits: []int{30, 30, 30, 30, 30, 30}},
			rk.Chain{Name: "q45x4", QBits: []int{45, 45, 45, 45}})
	}
	return cs
}

// pBits returns the sizes of the np primes of P that go with a Q shape.
func pBits(np int) []int {
	return [][]int{nil, {61}, {61, 30}, {61, 30, 45}}[np]
}

func withP(ch rk.Chain, np int) rk.Chain {
	ch.PBits = pBits(np)
	return ch
}

// xsAlphabet: secret distributions (index 0 = the library default).
func xsAlphabet(n int) []ring.DistributionParameters {
	return []ring.DistributionParameters{
		ring.Ternary{P: 2.0 / 3},
		ring.Ternary{P: 0.5},
		ring.Ternary{H: n / 4},
		ring.DiscreteGaussian{Sigma: 3.2, Bound: 19.2},
	}
}

// xeAlphabet: error distributions (index 0 = the library default σ=3.2, bound 6σ).
func xeAlphabet() []ring.DistributionParameters {
	return []ring.DistributionParameters{
		rlwe.DefaultXe,
		ring.DiscreteGaussian{Sigma: 1, Bound: 6},
		ring.Ternary{P: 0.5},
	}
}

// xeFor: the error alphabet of a chain (with its P). Chains whose primes of Q and P are ALL at least 45 bits long also get
// Gaussians with a huge support (σ = 2^31, 2^33, 2^40, bound 6σ): accepted by NewParameters, and every
// sampled coefficient fits below every q_i (the sampler writes it per modulus) and below q_0/2 (the
// small-norm lift to P centres through q_0) — so the noise bounds derived from the declared support
// apply unchanged; they are large (≈ 2^43 .. 2^52) but far below Q (≥ 2^55 at level 0). Coefficients
// beyond 2^31 / 2^32 are the point: intermediate 32-bit representations show up nowhere else.
func xeFor(ch rk.Chain) []ring.DistributionParameters {
	a := xeAlphabet()
	for _, b := range append(append([]int{}, ch.QBits...), ch.PBits...) { // (P as well: the lift writes the value mod every p_j)
		if b < 45 {
			return a
		}
	}
	for _, e := range []float64{31, 33, 40} {
		s := math.Exp2(e)
		a = append(a, ring.DiscreteGaussian{Sigma: s, Bound: 6 * s})
	}
	return a
}

func isTernary(d ring.DistributionParameters) bool {
	_, ok := d.(ring.Ternary)
	return ok
}

// plaintext polynomials: integer coefficient vectors in [0,Q) at `level`. Distinct values per
// coefficient wherever the pattern allows, so that a permuted or dropped coefficient is visible.
var ptNames = []string{"ramp", "zero", "one", "X^(N-1)", "allQhalf"}

func plaintextPoly(kind, n int, Q *big.Int) []*big.Int {
	m := make([]*big.Int, n)
	for j := range m {
		m[j] = new(big.Int)
	}
	switch kind {
	case 0: // ramp: (j+1)·2^20 + 3j, alternating sign
		for j := range m {
			m[j].SetInt64(int64(j+1)<<20 + int64(3*j))
			if j&1 == 1 {
				m[j].Neg(m[j])
			}
			m[j].Mod(m[j], Q)
		}
	case 1:
	case 2:
		m[0].SetInt64(1)
	case 3:
		m[n-1].SetInt64(1)
	case 4:
		h := new(big.Int).Rsh(Q, 1)
		for j := range m {
			m[j].Set(h)
		}
	}
	return m
}

func ringName(rt ring.Type) string {
	if rt == ring.ConjugateInvariant {
		return "CI"
	}
	return "Std"
}

// nMul is the number of products summed into one coefficient of a ring product: N in the standard
// ring; in the conjugate-invariant ring an element has 2N−1 non-zero unfolded coefficients (< 2N).
func nMul(rt ring.Type, n int) int64 {
	if rt == ring.ConjugateInvariant {
		return int64(2 * n)
	}
	return int64(n)
}

func q(params rlwe.Parameters, level int) *big.Int {
	return ref.Prod(params.RingQ().ModuliChain()[:level+1])
}

func cfgString(parts ...interface{}) string { return fmt.Sprint(parts...) }
