package main

import (
	"fmt"
	"math"
	"math/big"

	"github.com/tuneinsight/lattigo/v6/core/rlwe"
	"github.com/tuneinsight/lattigo/v6/ring"

	"verif/engine"
	"verif/lib/rk"
	"verif/ref"
	"verif/uni"
)

// Group "kgenseq": HISTORY of one KeyGenerator (which embeds *Encryptor: its samplers are shared by every
// value copy of the generator and by the encryptors obtained from it with WithKey / WithPRNG). A
// sequence of kgenSeqLen calls runs on the same generator, in every order; every output is judged
// exactly as the same call on a fresh generator would be:
//
//	secret keys:   support {−1,0,1}; EXACT Hamming weight for Ternary{H} (declared, or requested through
//	               GenSecretKeyWithHammingWeightNew); a loose lower bound on the weight for Ternary{P}
//	public keys, relinearisation keys: every row error within the declared support
//	encryptions through kgen.WithKey(pk) / kgen.WithKey(sk).WithPRNG(..): hard noise bound
//
// and, pooled over kgenPool independent runs of the same sequence (≥ 512 coefficients), the error of the
// public-key encryptions of the last step stays inside [σ/2, 2σ] of the nominal value computed from the
// DECLARED distributions (the mask u of a pk-encryption is drawn from the generator's secret sampler:
// a sampler replaced by an earlier call shows here even when no secret key is generated afterwards).
const kgenPool = 16

var kgenOps = []string{"GenSecretKeyNew", "GenSecretKeyWithHammingWeightNew(small)", "GenSecretKeyWithHammingWeightNew(large)",
	"GenKeyPairNew", "GenPublicKeyNew", "GenRelinearizationKeyNew", "WithKey(pk).EncryptZeroNew", "WithKey(sk).WithPRNG.EncryptZeroNew"}

func weight(s []*big.Int) (w int, ternary bool) {
	ternary = true
	for _, x := range s {
		if x.Sign() != 0 {
			w++
		}
		if x.CmpAbs(big.NewInt(1)) > 0 {
			ternary = false
		}
	}
	return
}

func kgenSeqScenario(rt ring.Type, logN int, ch rk.Chain, np, seqLen int) engine.Scenario {
	ch = withP(ch, np)
	name := fmt.Sprintf("kgenseq/%s/logN%d/%s/P%d", ringName(rt), logN, ch.Name, np)
	return engine.Scenario{Name: name, Bound: -1, Fn: func(c *engine.Chooser) {
		n := 1 << logN
		// declared secret distribution: fixed weight n/4 (exact oracle), or the default Ternary{P: 2/3}
		xs := []ring.DistributionParameters{ring.Ternary{H: n / 4}, ring.Ternary{P: 2.0 / 3}}[c.ChooseFree(2, "Xs")]
		p := rk.Params(ch.Lit(logN, maxLogN, rt, true, xs, xeAlphabet()[0]))
		hwSmall, hwLarge := 1, n
		ops := make([]int, seqLen)
		cfg := "Xs=" + rk.DistName(xs)
		for i := range ops {
			ops[i] = c.ChooseFree(len(kgenOps), fmt.Sprintf("op%d", i))
			cfg += " | " + kgenOps[ops[i]]
		}
		c.Note("%s", cfg)
		gen := "C03/kgenseq/"
		rQ, L := p.RingQ(), p.MaxLevel()
		be := big.NewInt(rk.AbsBound(p.Xe()))

		judgeSecret := func(what string, sk *rlwe.SecretKey, wantWeight int) bool {
			w, tern := weight(rk.Secret(p, sk))
			if !tern {
				c.Fail(gen+"secret/support", "%s: %s: secret outside {-1,0,1}", cfg, what)
				return false
			}
			switch {
			case wantWeight > 0 && w != wantWeight:
				c.Fail(gen+"secret/hamming-weight", "%s: %s: Hamming weight %d, want exactly %d", cfg, what, w, wantWeight)
				return false
			case wantWeight == 0 && w < n/8:
				// Ternary{P: 2/3}: weight ~ Binomial(n, 2/3); P(weight < n/8) < 1e-7 at n = 16 and far less above
				c.Fail(gen+"secret/hamming-weight", "%s: %s: Hamming weight %d of %d for the declared Ternary{P:2/3}", cfg, what, w, n)
				return false
			}
			return true
		}
		declared := 0
		if t, ok := xs.(ring.Ternary); ok && t.H != 0 {
			declared = t.H
		}

		var lastPool rk.Pool
		var nominal2 float64
		lastIsPk := ops[seqLen-1] == 6
		for run := 0; run < kgenPool; run++ {
			if run > 0 && !lastIsPk {
				break // the pooled clause only concerns sequences that end with a pk-encryption
			}
			uni.Seed(c, name, cfg, run)
			kgen := rlwe.NewKeyGenerator(p)
			// a key pair made by a SEPARATE generator, so that the sequence under test starts on a generator
			// without history
			sk0, pk0 := rlwe.NewKeyGenerator(p).GenKeyPairNew()
			s0 := rk.Secret(p, sk0)
			for i, op := range ops {
				what := fmt.Sprintf("step %d %s", i, kgenOps[op])
				err, pan := uni.Try(func() error {
					switch op {
					case 0:
						if !judgeSecret(what, kgen.GenSecretKeyNew(), declared) {
							return fmt.Errorf("judged")
						}
					case 1:
						if !judgeSecret(what, kgen.GenSecretKeyWithHammingWeightNew(hwSmall), hwSmall) {
							return fmt.Errorf("judged")
						}
					case 2:
						if !judgeSecret(what, kgen.GenSecretKeyWithHammingWeightNew(hwLarge), hwLarge) {
							return fmt.Errorf("judged")
						}
					case 3, 4:
						sk, pk := sk0, (*rlwe.PublicKey)(nil)
						if op == 3 {
							sk, pk = kgen.GenKeyPairNew()
							if !judgeSecret(what, sk, declared) {
								return fmt.Errorf("judged")
							}
						} else {
							pk = kgen.GenPublicKeyNew(sk0)
						}
						e, _ := rk.PhaseQP(rt, p.RingQP(), pk.Value[0], pk.Value[1], p.MaxLevelQ(), p.MaxLevelP(), true, true, rk.Secret(p, sk))
						if ref.InfNorm(e).Cmp(be) > 0 {
							c.Fail(gen+"pk/noise-upper", "%s: %s: public-key error of %d bits", cfg, what, ref.InfNorm(e).BitLen())
							return fmt.Errorf("judged")
						}
					case 5:
						rlk := kgen.GenRelinearizationKeyNew(sk0)
						kj := &keyJudge{c: c, p: p, cfg: cfg + " " + what, gen: gen + "rlk/", c1s: map[string]bool{}}
						if !kj.judgeGadget(&rlk.GadgetCiphertext, rk.Mul(rt, s0, s0), s0) {
							return fmt.Errorf("judged")
						}
					case 6, 7:
						var enc *rlwe.Encryptor
						bound := encBound(p, op == 6)
						if op == 6 {
							enc = kgen.WithKey(pk0)
						} else {
							enc = kgen.WithKey(sk0).WithPRNG(uni.KeyedPRNG("kgenseq", name, cfg, run, i))
						}
						ct := enc.EncryptZeroNew(L)
						e := rk.Phase(rt, rQ, &ct.Element, s0)
						if ref.InfNorm(e).Cmp(bound) > 0 {
							c.Fail(gen+"encrypt/noise-upper", "%s: %s: |e|∞ = %v > %v", cfg, what, ref.InfNorm(e), bound)
							return fmt.Errorf("judged")
						}
						if op == 6 {
							// The mask u of a public-key encryption, read off exactly: under the crafted public key
							// (0, K·P) with K = 2^20 the second component is K·u + e1 (divided by P: K·u + round(e1/P)),
							// so u = round(c1/K). It must follow the DECLARED secret distribution whatever the
							// generator was asked for before.
							u := maskOfPkEncryption(p, kgen)
							w, tern := weight(u)
							if !tern || (declared > 0 && w != declared) || (declared == 0 && w < n/8) {
								c.Fail(gen+"encrypt/mask-u-not-from-declared-Xs", "%s: %s: the mask u of kgen.WithKey(pk) encryption has weight %d (ternary=%v), declared Xs = %s", cfg, what, w, tern, rk.DistName(xs))
								return fmt.Errorf("judged")
							}
						}
						if op == 6 && i == seqLen-1 {
							lastPool.Add(e)
							epk, _ := rk.PhaseQP(rt, p.RingQP(), pk0.Value[0], pk0.Value[1], p.MaxLevelQ(), p.MaxLevelP(), true, true, s0)
							nominal2 += sq(nominalSigma(p, true, p.PCount() > 0, rk.UnfNorm2(rt, s0), rk.UnfNorm2(rt, epk)))
						}
					}
					return nil
				})
				if pan != nil {
					c.Fail(gen+"panic", "%s: %s panicked: %v", cfg, what, pan)
					return
				}
				if err != nil {
					return
				}
			}
		}
		c.Count(seqLen)
		for _, op := range ops {
			c.Cover("kgenseq-op", kgenOps[op])
		}
		if lastIsPk {
			// nominal = root mean of the per-run nominal variances (each run has its own key pair)
			nominal := sqrt(nominal2 / float64(kgenPool))
			c.Cover("stat-ratio(empirical/nominal sigma)", fmt.Sprintf("%.1f", lastPool.Std()/nominal))
			if lastPool.NonZero == 0 || !inWindow(lastPool.Std(), nominal) {
				c.Fail(gen+"encrypt/sigma-window", "%s: pk-encryptions through kgen.WithKey(pk) after this history, pooled over %d runs (%d coefficients): empirical σ %.4f outside [σ/2,2σ] of the nominal %.4f of the declared distributions",
					cfg, kgenPool, lastPool.N, lastPool.Std(), nominal)
				return
			}
			c.Cover("kgenseq-probe", "pooled-pk-encryption-after-history")
		}
		c.Outcome("kgenseq", cfg)
	}}
}

// maskOfPkEncryption encrypts zero with kgen.WithKey(crafted public key (0, K·P)) and returns u.
func maskOfPkEncryption(p rlwe.Parameters, kgen *rlwe.KeyGenerator) []*big.Int {
	const logK = 20
	pk := rlwe.NewPublicKey(p)
	rQP := p.RingQP()
	kp := new(big.Int).Lsh(big.NewInt(1), logK)
	if p.PCount() > 0 {
		// encryption into a *Ciphertext divides by the FIRST prime of P only (levelP = 0)
		kp.Mul(kp, new(big.Int).SetUint64(p.P()[0]))
	}
	for i, q := range p.Q() {
		pk.Value[1].Q.Coeffs[i][0] = ref.ModU(kp, q)
	}
	for i, q := range p.P() {
		pk.Value[1].P.Coeffs[i][0] = ref.ModU(kp, q)
	}
	rQP.NTT(pk.Value[1], pk.Value[1])
	rQP.MForm(pk.Value[1], pk.Value[1])
	ct := kgen.WithKey(pk).EncryptZeroNew(p.MaxLevel())
	c1 := rk.CoeffsQ(p.RingQ(), ct.Value[1], ct.Level(), ct.IsNTT, ct.IsMontgomery)
	K := new(big.Int).Lsh(big.NewInt(1), logK)
	u := make([]*big.Int, len(c1))
	for j := range c1 {
		u[j] = ref.RoundDivHalfUp(c1[j], K)
	}
	return u
}

func sq(x float64) float64   { return x * x }
func sqrt(x float64) float64 { return math.Sqrt(x) }
