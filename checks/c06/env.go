package main

import (
	"fmt"
	"math/big"

	"github.com/tuneinsight/lattigo/v6/core/rlwe"
	"github.com/tuneinsight/lattigo/v6/ring"
	"github.com/tuneinsight/lattigo/v6/schemes/ckks"
	"github.com/tuneinsight/lattigo/v6/utils/bignum"

	"verif/lib/cklib"
)

// env is everything built once per configuration and worker: parameters, keys, the evaluator under
// test, the operand catalogue and the initial register files. It is a deterministic function of
// (VERIF_SEED, configuration name); leaves only copy from it.
type env struct {
	cf      cklib.Cfg
	x       *cklib.Ctx
	ev      *ckks.Evaluator
	evk     rlwe.EvaluationKeySet
	evNone  *ckks.Evaluator // evaluator created without any evaluation key
	ci      bool
	k       int // primes consumed per rescale (1, or 2 in the 128-bit precision mode)
	maxLvl  int
	delta   *big.Rat // default scale
	consts  []constant
	bconsts []constant // boundary-valued scalars (subset of consts)
	vecs    []vecOperand
	pts     map[string]*reg // plaintext operands (ct field unused, pt holds the plaintext)
	ptv     map[string]*rlwe.Plaintext
	inits   [][]*reg
	rotKs   []int
	stale   *rlwe.Ciphertext
}

var initNames = []string{"equal", "r1-scale-x2", "r1-rescaled", "r0-lower-level", "r1-degree2", "r0-level-1", "r0-level-0"}

// operand values: distinct in every slot, no symmetry (neither real nor conjugate-symmetric, no equal
// operands), magnitudes around 1 so that products stay well inside the modulus.
func regVec(id, slots int, ci bool) cklib.Vec {
	v := make(cklib.Vec, slots)
	for i := range v {
		re := 0.5 + 0.125*float64((i*(id+2)+id)%7) - 0.25*float64(id)
		im := -0.75 + 0.0625*float64((i*(id+3)+2*id+1)%11) + 0.125*float64(id)
		if ci {
			im = 0
		}
		v[i] = cklib.NewC(re, im)
	}
	return v
}

func newEnv(seed uint64, cf cklib.Cfg) *env {
	x := cklib.NewCtx(seed, cf)
	e := &env{cf: cf, x: x, ci: cf.RingType == ring.ConjugateInvariant, k: x.Params.LevelsConsumedPerRescaling(), maxLvl: x.Params.MaxLevel()}
	e.delta = ratPow2(cf.LogScale)
	e.rotKs = []int{1, 3}
	gals := []uint64{x.Params.GaloisElement(1), x.Params.GaloisElement(3)}
	if !e.ci {
		gals = append(gals, x.Params.GaloisElementOrderTwoOrthogonalSubgroup())
	}
	e.evk = rlwe.NewMemEvaluationKeySet(x.Rlk, x.GaloisKeys(gals)...)
	e.resetEvaluator()
	e.evNone = ckks.NewEvaluator(x.Params, nil)
	prec := x.Params.EncodingPrecision()
	_ = prec

	// ---- scalar operands: every documented scalar type, Gaussian integers and non-integers -------------
	cI := func(re, im float64) cklib.C {
		if e.ci {
			im = 0
		}
		return cklib.NewC(re, im)
	}
	im := func(v float64) float64 {
		if e.ci {
			return 0 // the conjugate-invariant ring holds real vectors: complex scalars are out of scope there
		}
		return v
	}
	bf := func(v float64) *big.Float { return new(big.Float).SetPrec(128).SetFloat64(v) }
	e.consts = []constant{
		{kind: "complex128-gint", val: complex(2, im(-1)), m: cI(2, -1), isInt: true},
		{kind: "complex128-frac", val: complex(0.5, im(0.25)), m: cI(0.5, 0.25)},
		{kind: "float64-int", val: float64(3), m: cI(3, 0), isInt: true},
		{kind: "float64-frac", val: float64(-1.5), m: cI(-1.5, 0)},
		{kind: "int", val: int(-2), m: cI(-2, 0), isInt: true},
		{kind: "int64", val: int64(3), m: cI(3, 0), isInt: true},
		{kind: "uint", val: uint(2), m: cI(2, 0), isInt: true},
		{kind: "uint64", val: uint64(3), m: cI(3, 0), isInt: true},
		{kind: "bigInt", val: big.NewInt(-3), m: cI(-3, 0), isInt: true},
		{kind: "bigFloat-int", val: bf(2), m: cI(2, 0), isInt: true},
		{kind: "bigFloat-frac", val: bf(0.625), m: cI(0.625, 0)},
		{kind: "bignumComplex-gint", val: &bignum.Complex{bf(1), bf(im(2))}, m: cI(1, 2), isInt: true},
		{kind: "bignumComplex-frac", val: &bignum.Complex{bf(0.75), bf(im(-0.5))}, m: cI(0.75, -0.5)},
	}

	// ---- boundary scalars: per Go type the API accepts, the values at which a conversion through a narrower or
	// signed type changes the number (2^31, 2^32, 2^53±1, 2^63-1, 2^63, 2^64-1). Exact integer model. They are
	// not part of the program alphabet (see boundaryScenario).
	bi := func(x *big.Int) cklib.C { return cklib.FromBig(new(big.Float).SetPrec(cklib.Prec).SetInt(x), nil) }
	p2 := func(k uint) *big.Int { return new(big.Int).Lsh(big.NewInt(1), k) }
	sub1 := func(x *big.Int) *big.Int { return new(big.Int).Sub(x, big.NewInt(1)) }
	add1 := func(x *big.Int) *big.Int { return new(big.Int).Add(x, big.NewInt(1)) }
	ngt := func(x *big.Int) *big.Int { return new(big.Int).Neg(x) }
	bfI := func(x *big.Int) *big.Float { return new(big.Float).SetPrec(128).SetInt(x) }
	e.bconsts = []constant{
		{kind: "uint64-2p63", val: uint64(1) << 63, m: bi(p2(63)), isInt: true},
		{kind: "uint64-2p64m1", val: ^uint64(0), m: bi(sub1(p2(64))), isInt: true},
		{kind: "uint64-2p63m1", val: uint64(1)<<63 - 1, m: bi(sub1(p2(63))), isInt: true},
		{kind: "uint64-2p53p1", val: uint64(1)<<53 + 1, m: bi(add1(p2(53))), isInt: true},
		{kind: "uint64-2p32", val: uint64(1) << 32, m: bi(p2(32)), isInt: true},
		{kind: "uint-2p63", val: uint(1) << 63, m: bi(p2(63)), isInt: true},
		{kind: "uint-2p64m1", val: ^uint(0), m: bi(sub1(p2(64))), isInt: true},
		{kind: "uint-2p32", val: uint(1) << 32, m: bi(p2(32)), isInt: true},
		{kind: "int64-max", val: int64(1<<63 - 1), m: bi(sub1(p2(63))), isInt: true},
		{kind: "int64-min", val: int64(-1 << 63), m: bi(ngt(p2(63))), isInt: true},
		{kind: "int64-2p53m1", val: int64(1<<53 - 1), m: bi(sub1(p2(53))), isInt: true},
		{kind: "int64-m2p32", val: int64(-1 << 32), m: bi(ngt(p2(32))), isInt: true},
		{kind: "int-min", val: int(-1 << 63), m: bi(ngt(p2(63))), isInt: true},
		{kind: "int-m2p31", val: int(-1 << 31), m: bi(ngt(p2(31))), isInt: true},
		{kind: "int-2p32", val: int(1 << 32), m: bi(p2(32)), isInt: true},
		{kind: "float64-2p53", val: float64(1 << 53), m: bi(p2(53)), isInt: true},
		{kind: "float64-2p63", val: float64(1 << 63), m: bi(p2(63)), isInt: true},
		{kind: "float64-m2p31", val: float64(-1 << 31), m: bi(ngt(p2(31))), isInt: true},
		{kind: "complex128-2p32", val: complex(float64(1<<32), im(-float64(1<<31))), m: cI(float64(1<<32), -float64(1<<31)), isInt: true},
		{kind: "bigInt-2p63", val: p2(63), m: bi(p2(63)), isInt: true},
		{kind: "bigInt-2p64p1", val: add1(p2(64)), m: bi(add1(p2(64))), isInt: true},
		{kind: "bigInt-m2p64", val: ngt(p2(64)), m: bi(ngt(p2(64))), isInt: true},
		{kind: "bigFloat-2p63", val: bfI(p2(63)), m: bi(p2(63)), isInt: true},
		{kind: "bigFloat-2p64m1", val: bfI(sub1(p2(64))), m: bi(sub1(p2(64))), isInt: true},
		{kind: "bignumComplex-2p63", val: &bignum.Complex{bfI(p2(63)), bfI(big.NewInt(0))}, m: bi(p2(63)), isInt: true},
	}
	e.consts = append(e.consts, e.bconsts...)

	// ---- vector operands ----------------------------------------------------------------------------------
	full := regVec(5, x.Slots, e.ci)
	short := full.Clone()
	nshort := x.Slots
	if x.Slots > 1 {
		nshort = x.Slots - 1
		short[nshort] = cklib.NewC(0, 0) // entries beyond len(values) are documented to be zero
	}
	toC128 := func(v cklib.Vec, n int) []complex128 { return v.Floats()[:n] }
	toF64 := func(v cklib.Vec, n int) []float64 {
		r := make([]float64, n)
		for i := range r {
			r[i], _ = v[i].Re.Float64()
		}
		return r
	}
	realOnly := func(v cklib.Vec) cklib.Vec {
		return cklib.Map1(v, func(a cklib.C) cklib.C { return cklib.FromBig(a.Re, nil) })
	}
	toBF := func(v cklib.Vec, n int) []*big.Float {
		r := make([]*big.Float, n)
		for i := range r {
			r[i] = new(big.Float).SetPrec(128).Set(v[i].Re)
		}
		return r
	}
	toBC := func(v cklib.Vec, n int) []*bignum.Complex {
		r := make([]*bignum.Complex, n)
		for i := range r {
			r[i] = &bignum.Complex{new(big.Float).SetPrec(128).Set(v[i].Re), new(big.Float).SetPrec(128).Set(v[i].Im)}
		}
		return r
	}
	e.vecs = []vecOperand{
		{kind: "vec-complex128", val: toC128(full, x.Slots), m: full},
		{kind: "vec-float64-short", val: toF64(short, nshort), m: realOnly(short)},
		{kind: "vec-bigFloat", val: toBF(full, x.Slots), m: realOnly(full)},
		{kind: "vec-bignumComplex", val: toBC(full, x.Slots), m: full},
	}
	// much shorter vectors (the tail of the encoder's buffer was written by earlier calls on the same evaluator)
	{
		one := full.Clone()
		for i := 1; i < len(one); i++ {
			one[i] = cklib.NewC(0, 0)
		}
		nh := (x.Slots + 1) / 2
		hf := full.Clone()
		for i := nh; i < len(hf); i++ {
			hf[i] = cklib.NewC(0, 0)
		}
		e.vecs = append(e.vecs, vecOperand{kind: "vec-complex128-len1", val: toC128(one, 1), m: one},
			vecOperand{kind: "vec-float64-half", val: toF64(hf, nh), m: realOnly(hf)})
	}

	// ---- plaintext operands ---------------------------------------------------------------------------------
	e.pts = map[string]*reg{}
	e.ptv = map[string]*rlwe.Plaintext{}
	mkPt := func(name string, level int, scale *big.Rat) {
		v := regVec(4, x.Slots, e.ci)
		pt := x.EncodeVec(v, level, scaleOfRat(scale), x.LogSl)
		s := ratF(scale)
		e.ptv[name] = pt
		// a plaintext carries no noise: only the encoding error (coefficient rounding + FFT)
		e.pts[name] = &reg{v: v, eps: x.NB.Encode(v.MaxAbs(), s), level: level, degree: 0, scale: scale, logSlots: x.LogSl}
	}
	mkPt("pt-eq", e.maxLvl, e.delta)
	mkPt("pt-scale-x2", e.maxLvl, ratMul(e.delta, ratPow2(1)))
	mkPt("pt-low-level", e.maxLvl-e.k, e.delta)

	// ---- initial register files -------------------------------------------------------------------------------
	fresh := func(id, level int, scale *big.Rat) *reg {
		v := regVec(id, x.Slots, e.ci)
		ct := x.EncryptVec(v, level, scaleOfRat(scale), x.LogSl)
		s := ratF(scale)
		// fresh secret-key encryption: one error polynomial + encoding error
		return &reg{ct: ct, v: v, eps: x.NB.Fresh()/s + x.NB.Encode(v.MaxAbs(), s), level: level, degree: 1, scale: scale, logSlots: x.LogSl}
	}
	L := e.maxLvl
	// the scale a rescaled product of two default-scale ciphertexts has: Δ²/(consumed primes)
	resc := ratMul(e.delta, e.delta)
	for i := 0; i < e.k; i++ {
		resc = ratQuo(resc, ratU(x.Params.Q()[L-i]))
	}
	e.inits = [][]*reg{
		{fresh(0, L, e.delta), fresh(1, L, e.delta), fresh(2, L, e.delta)},
		{fresh(0, L, e.delta), fresh(1, L, ratMul(e.delta, ratPow2(1))), fresh(2, L, e.delta)},
		{fresh(0, L, e.delta), fresh(1, L-e.k, resc), fresh(2, L, e.delta)},
		{fresh(0, L-e.k, e.delta), fresh(1, L, e.delta), fresh(2, L, e.delta)},
	}
	// fifth file: R1 is an unrelinearised product (degree 2, scale Δ²), built with the model's own rules
	{
		a, b := fresh(1, L, e.delta), fresh(2, L, e.delta)
		ct, err := e.ev.MulNew(a.ct, b.ct)
		if err != nil {
			panic(err)
		}
		d2 := &reg{ct: ct, level: L, degree: 2, scale: ratMul(e.delta, e.delta), logSlots: x.LogSl,
			v:   cklib.Map2(a.v, b.v, func(p, q cklib.C) cklib.C { return p.Mul(q) }),
			eps: mulErr(a.v.MaxAbs(), a.eps, b.v.MaxAbs(), b.eps)}
		e.inits = append(e.inits, []*reg{fresh(0, L, e.delta), d2, fresh(2, L, e.delta)})
	}
	// files six and seven: R0 near the bottom of the chain (RescaleTo / SetScale / constant scaling at every level)
	e.inits = append(e.inits, []*reg{fresh(0, 1, e.delta), fresh(1, L, e.delta), fresh(2, L, e.delta)})
	e.inits = append(e.inits, []*reg{fresh(0, 0, e.delta), fresh(1, 1, e.delta), fresh(2, L, e.delta)})

	// the "reused" destination: a ciphertext that was used before: degree 2, top level, another scale, another
	// LogDimensions, arbitrary content (an unrelated product)
	{
		st := e.inits[4][1].ct.CopyNew()
		st.Scale = scaleOfRat(ratMul(e.delta, big.NewRat(3, 1)))
		st.LogDimensions.Cols = (x.LogSl + 1) % (x.Params.LogMaxSlots() + 1)
		e.stale = st
	}
	return e
}

// resetEvaluator builds a fresh evaluator on the same keys.
func (e *env) resetEvaluator() { e.ev = ckks.NewEvaluator(e.x.Params, e.evk) }

// qAt returns the prime of the chain at `level` as a rational.
func (e *env) qAt(level int) *big.Rat { return ratU(e.x.Params.Q()[level]) }

// rescaleFactor is the documented constant-scaling / rescaling factor at `level`: the current prime, or
// the product of the two current primes in the 128-bit precision mode. ok=false if the chain is too short.
func (e *env) rescaleFactor(level int) (f *big.Rat, ok bool) {
	if level-e.k+1 < 0 {
		return nil, false
	}
	f = big.NewRat(1, 1)
	for i := 0; i < e.k; i++ {
		f = ratMul(f, e.qAt(level-i))
	}
	return f, true
}

// log2Q returns log2 of the modulus at `level`.
func (e *env) log2Q(level int) float64 {
	return float64(e.x.Params.QLvl(level).BitLen() - 1)
}

func (e *env) describe() string {
	return fmt.Sprintf("%s N=%d slots=%d levels=%d k=%d h=%d", e.cf.Name, e.x.Params.N(), e.x.Slots, e.maxLvl+1, e.k, e.x.H)
}
