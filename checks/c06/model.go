package main

import (
	"math"
	"math/big"

	"github.com/tuneinsight/lattigo/v6/core/rlwe"

	"verif/lib/cklib"
)

// reg is one register of the machine: the live ciphertext and its plain model.
//
//	v      the slot vector the straight-line program computes over the complex (real) numbers;
//	eps    a bound, in message units and valid at every embedding root, on |phase/scale - v|, i.e. on the
//	       error of the decoded slots before the decoder's own floating point error. It is *propagated by
//	       the model* from declared noise supports, roundings and scales (cklib.Bounds), never measured;
//	scale  the exact documented scale as a rational (products / quotients of the documented factors);
//	level, degree, logSlots: the documented metadata.
type reg struct {
	ct       *rlwe.Ciphertext
	v        cklib.Vec
	eps      float64
	level    int
	degree   int
	scale    *big.Rat
	logSlots int
}

func (r *reg) clone() *reg {
	c := *r
	c.ct = r.ct.CopyNew()
	c.v = r.v.Clone()
	c.scale = new(big.Rat).Set(r.scale)
	return &c
}

// sf returns the scale as float64 (scales stay below 2^400).
func ratF(r *big.Rat) float64 {
	f, _ := new(big.Float).SetPrec(64).SetRat(r).Float64()
	return f
}

func (r *reg) sf() float64 { return ratF(r.scale) }

func ratU(q uint64) *big.Rat { return new(big.Rat).SetInt(new(big.Int).SetUint64(q)) }

func ratPow2(k int) *big.Rat {
	return new(big.Rat).SetInt(new(big.Int).Lsh(big.NewInt(1), uint(k)))
}

func ratMul(a, b *big.Rat) *big.Rat { return new(big.Rat).Mul(a, b) }
func ratQuo(a, b *big.Rat) *big.Rat { return new(big.Rat).Quo(a, b) }

// scaleOfRat builds the rlwe.Scale the library would hold for an exactly known rational.
func scaleOfRat(r *big.Rat) rlwe.Scale {
	f := new(big.Float).SetPrec(rlwe.ScalePrecision).SetRat(r)
	return rlwe.NewScale(f)
}

// scaleMatches: rlwe.Scale is documented as "managed as a 128-bit precision real": every Mul/Div rounds
// to 128 bits, so an implementation that applies exactly the documented factors agrees with the exact
// rational to within a few units of 2^-128 per operation. 2^-100 relative tolerates 2^28 roundings and is
// 2^55 times finer than the closest wrong answer the check could see (a wrong prime of the same size
// differs by >= 2^-45 relative).
func scaleMatches(got rlwe.Scale, want *big.Rat) bool {
	if got.Value.Sign() <= 0 || got.Value.IsInf() {
		return false
	}
	w := new(big.Float).SetPrec(400).SetRat(want)
	d := new(big.Float).SetPrec(400).Sub(&got.Value, w)
	d.Abs(d)
	d.Quo(d, w)
	lim := new(big.Float).SetMantExp(big.NewFloat(1), -100)
	return d.Cmp(lim) <= 0
}

// floorRat returns floor(r) for r > 0.
func floorRat(r *big.Rat) *big.Int {
	return new(big.Int).Quo(r.Num(), r.Denom())
}

// constant describes a scalar operand: the Go value handed to the evaluator and its exact model value.
type constant struct {
	kind  string
	val   interface{}
	m     cklib.C
	isInt bool // Gaussian integer: the documented "no scaling, no level" path
}

func (k constant) abs() float64 { return k.m.Abs() }

// vecOperand describes a vector operand (len <= slots; missing entries are zero).
type vecOperand struct {
	kind string
	val  interface{}
	m    cklib.Vec // padded to the slot count
}

// mulErr: ε of a slot-wise product of two approximated values: |v1|ε2 + |v2|ε1 + ε1ε2.
func mulErr(a1, e1, a2, e2 float64) float64 { return a1*e2 + a2*e1 + e1*e2 }

const sqrt2 = math.Sqrt2
