// C06 — CKKS evaluation approximates complex (real) arithmetic within the noise-implied precision; scale and
// level metadata are exactly the documented ones.
//
// A register machine (three ciphertext registers, plaintext / scalar / vector operands) is driven through
// every straight-line program up to a length bound over the evaluator's alphabet; after every instruction
// the implementation state is compared with a plain model (see model.go, machine.go).
package main

import (
	"fmt"
	"math"
	"os"
	"strings"
	"time"

	"github.com/tuneinsight/lattigo/v6/ring"

	"verif/engine"
	"verif/lib/cklib"
	"verif/uni"
)

func cfgs(tier string) []cklib.Cfg {
	std, ci := ring.Standard, ring.ConjugateInvariant
	q45 := []int{55, 45, 45, 45}
	q30 := []int{40, 30, 30, 30}
	q128 := []int{50, 50, 40, 40, 40, 40}
	c := []cklib.Cfg{
		{Name: "std4-s45-P1", RingType: std, LogN: 4, LogQ: q45, LogP: []int{61}, LogScale: 45, LogSlots: -1},
		{Name: "std4-s45-P1-slots4", RingType: std, LogN: 4, LogQ: q45, LogP: []int{61}, LogScale: 45, LogSlots: 2},
		{Name: "std4-s45-P1-slots2", RingType: std, LogN: 4, LogQ: q45, LogP: []int{61}, LogScale: 45, LogSlots: 1},
		{Name: "std4-s45-P1-slots1", RingType: std, LogN: 4, LogQ: q45, LogP: []int{61}, LogScale: 45, LogSlots: 0},
		{Name: "std4-s45-P2", RingType: std, LogN: 4, LogQ: q45, LogP: []int{61, 61}, LogScale: 45, LogSlots: -1},
		{Name: "std4-s45-P0", RingType: std, LogN: 4, LogQ: q45, LogScale: 45, LogSlots: -1, Pow2: 6},
		{Name: "std4-s30-P1", RingType: std, LogN: 4, LogQ: q30, LogP: []int{45}, LogScale: 30, LogSlots: -1},
		{Name: "std4-s80-P2", RingType: std, LogN: 4, LogQ: q128, LogP: []int{61, 61}, LogScale: 80, LogSlots: -1},
		{Name: "std5-s45-P1", RingType: std, LogN: 5, LogQ: q45, LogP: []int{61}, LogScale: 45, LogSlots: -1},
		{Name: "ci4-s45-P1", RingType: ci, LogN: 4, LogQ: q45, LogP: []int{61}, LogScale: 45, LogSlots: -1},
		{Name: "ci4-s45-P1-slots4", RingType: ci, LogN: 4, LogQ: q45, LogP: []int{61}, LogScale: 45, LogSlots: 2},
		{Name: "ci4-s80-P2", RingType: ci, LogN: 4, LogQ: q128, LogP: []int{61, 61}, LogScale: 80, LogSlots: -1},
	}
	if tier == "thorough" {
		c = append(c,
			cklib.Cfg{Name: "std5-s45-P2-slots8", RingType: std, LogN: 5, LogQ: []int{55, 45, 45, 45, 45}, LogP: []int{61, 61}, LogScale: 45, LogSlots: 3},
			cklib.Cfg{Name: "ci5-s45-P1", RingType: ci, LogN: 5, LogQ: q45, LogP: []int{61}, LogScale: 45, LogSlots: -1},
			cklib.Cfg{Name: "std4-s55-P1", RingType: std, LogN: 4, LogQ: []int{60, 55, 55, 55}, LogP: []int{61}, LogScale: 55, LogSlots: -1},
			cklib.Cfg{Name: "std4-s20-P1", RingType: std, LogN: 4, LogQ: []int{30, 20, 20, 20}, LogP: []int{40}, LogScale: 20, LogSlots: -1},
		)
	}
	return c
}

// plan: the alphabet available at each program position.
type plan struct {
	name string
	pos  [][]instr
}

// plans: quick = every program of length 2 over the full alphabet; thorough adds length 3 with the reduced
// alphabet at the later positions (everywhere), at the first position too (primary configurations) and
// full x full x reduced on the first configuration.
// plans: quick = every program of length 2 over the full alphabet and of length 3 over the reduced one;
// thorough adds length 3 with the reduced alphabet at the later positions (everywhere), at the first position
// too (primary configurations), full x full x reduced on the first configuration, and length 4 over the
// reduced alphabet on the primary ones.
func plans(tier string, primary, first bool) []plan {
	full, core := alphabet(), coreAlphabet()
	p := []plan{{"L2", [][]instr{full, full}}, {"L3ccc", [][]instr{core, core, core}}}
	if tier == "quick" {
		return p
	}
	p = append(p, plan{"L3fcc", [][]instr{full, core, core}})
	if primary {
		p = append(p, plan{"L3cfc", [][]instr{core, full, core}}, plan{"L4cccc", [][]instr{core, core, core, core}})
	}
	if first {
		p = append(p, plan{"L3ffc", [][]instr{full, full, core}})
	}
	return p
}

// initsFor: which initial register files a plan explores on a configuration.
func initsFor(tier string, primary bool, pl string, cfg string) []int {
	switch {
	case tier == "quick" && !primary && strings.Contains(cfg, "-slots"):
		if pl == "L2" {
			return []int{0} // quick: the sparse-packing configurations vary the packing, not the register files
		}
		return nil
	case tier == "quick" && pl == "L3ccc" && primary:
		return []int{0, 2}
	case tier == "quick" && pl == "L3ccc":
		return nil // quick: length 3 on the primary configurations only
	case tier == "quick" && primary:
		return []int{0, 1, 2, 3, 4, 5, 6}
	case tier == "quick":
		return []int{0, 2}
	case pl == "L4cccc":
		return []int{0, 2}
	case pl == "L3ffc":
		return []int{0, 2, 3, 5}
	case pl == "L3fcc" && !primary:
		return []int{0, 2}
	case primary:
		return []int{0, 1, 2, 3, 4, 5, 6}
	}
	return []int{0, 1, 2, 3, 5, 6}
}

const chunk = 16 // first-position instructions per scenario (many scenarios of similar size)

func scenarios(tier string) []engine.Scenario {
	var scs []engine.Scenario
	for ci, cf := range cfgs(tier) {
		cf := cf
		var e *env
		get := func(c *engine.Chooser) *env {
			if e == nil {
				e = newEnv(c.Seed, cf)
			}
			return e
		}
		scs = append(scs, decoderScenario(cf, get))
		// spine: the canonical deep program (MulRelin by a fresh ciphertext, Rescale, ... down to level 0) with at
		// most 1 (quick) / 2 (thorough) deviations into the reduced alphabet (DESIGN: "length <= 5 along spine")
		{
			name := cf.Name + "/spine"
			bound := 1
			if tier == "thorough" {
				bound = 2
			}
			scs = append(scs, engine.Scenario{Name: name, Bound: bound, Fn: func(c *engine.Chooser) {
				e := get(c)
				core := coreAlphabet()
				var pos [][]instr
				for d := 0; d < e.maxLvl/e.k; d++ {
					pos = append(pos, append([]instr{{"MulRelin", "ct-other", "inplace", true}}, core...))
					pos = append(pos, append([]instr{{"Rescale", "-", "inplace", true}}, core...))
				}
				c.Cover("plan", "spine")
				runProgram(c, e, name, 0, pos[0], pos[1:])
			}})
		}
		// boundary scalars: every accepted scalar Go type at the values where a conversion through a narrower or signed
		// type changes the number, through every opcode that takes a scalar (and ScaleUp), one instruction each,
		// from the top-level files (large constants only fit the modulus there)
		{
			name := cf.Name + "/boundary-scalars"
			scs = append(scs, engine.Scenario{Name: name, Bound: -1, Fn: func(c *engine.Chooser) {
				e := get(c)
				var first []instr
				for _, op := range []string{"Add", "Sub", "Mul", "MulRelin", "MulThenAdd", "MulRelinThenAdd"} {
					for _, k := range e.bconsts {
						d := "inplace"
						if op == "MulThenAdd" || op == "MulRelinThenAdd" {
							d = "acc"
						}
						first = append(first, instr{op, k.kind, d, false})
						if d == "inplace" && (op == "Add" || op == "Mul") {
							first = append(first, instr{op, k.kind, "new", false})
						}
					}
				}
				for _, k := range []string{"x2p32", "x2p63", "x2p64m1"} {
					first = append(first, instr{"ScaleUp", k, "inplace", false}, instr{"ScaleUp", k, "new", false})
				}
				c.Cover("plan", "boundary-scalars")
				init := []int{0, 1}[c.Choose(2, "init")]
				runProgram(c, e, name, init, first, nil)
			}})
		}
		// receivers and refusals: every out-of-place operation into receivers pre-allocated at the result level, one
		// above, the input level, level 0 and (degree 2, stale) at the result level, from register files at every
		// level, alone and after one preparing instruction; plus one leaf per documented refusal next to its nearest
		// accepted neighbour (operand type, missing keys, aliasing, minScale, levels).
		{
			var recv []instr
			for _, d := range []string{"out@res", "out@res1", "out@in", "out@zero", "reused@res"} {
				for _, op := range binaryOps {
					for _, k := range []string{"ct-other", "pt-eq", "pt-low-level", "complex128-gint", "complex128-frac", "vec-complex128"} {
						recv = append(recv, instr{op, k, d, false})
					}
				}
				recv = append(recv, instr{"Relinearize", "-", d, false}, instr{"Rotate", "k1", d, false}, instr{"Conjugate", "-", d, false},
					instr{"Rescale", "-", d, false}, instr{"RescaleTo", "min-default", d, false}, instr{"RescaleTo", "min-1.5xdefault", d, false})
			}
			refusals := []instr{{"Rotate", "k5-nokey", "inplace", false}, {"Rotate", "k1", "nokeys", false}, {"Rotate", "k1", "inplace", false},
				{"MulRelin", "ct-other", "nokeys", false}, {"Relinearize", "-", "nokeys", false},
				{"RescaleTo", "min-zero", "inplace", false}, {"RescaleTo", "min-zero", "out", false},
				{"MulThenAddAlias", "ct", "inplace", false}, {"MulThenAddAlias", "frac", "inplace", false}, {"MulThenAddAlias", "vec", "inplace", false}, {"MulThenAddAlias", "gint", "inplace", false}}
			for _, k := range []string{"Add/opOut-metadata-nil", "Add/op1-metadata-nil", "Mul/opOut-metadata-nil", "Rescale/opOut-metadata-nil", "RescaleTo/opOut-metadata-nil",
				"Add/op0-flagged-not-NTT", "Mul/op0-flagged-not-NTT", "Add/plaintext-not-batched", "RescaleTo/ciphertext-scale-zero",
				"MulThenAdd/op1-is-opOut", "MulRelinThenAdd/op1-is-opOut", "MulRelinThenAdd/op0-is-opOut"} {
				refusals = append(refusals, instr{"Refusal", k, "-", false})
			}
			for _, op := range append(append([]string{}, binaryOps...), accOps...) {
				d := "inplace"
				if op == "MulThenAdd" || op == "MulRelinThenAdd" {
					d = "acc"
				}
				refusals = append(refusals, instr{op, "invalid-type", d, false}, instr{op, "int", d, false})
			}
			all := append(append([]instr{}, recv...), refusals...)
			prep := []instr{{"Mul", "ct-other", "inplace", true}, {"Mul", "complex128-frac", "inplace", true}, {"MulRelin", "ct-other", "inplace", true},
				{"Rescale", "-", "inplace", true}, {"DropLevel", "1", "inplace", true}, {"Swap", "-", "-", true}}
			inits := []int{0, 2, 3, 5, 6}
			for _, two := range []bool{false, true} {
				two := two
				name := cf.Name + "/receivers-1"
				if two {
					name = cf.Name + "/receivers-2"
				}
				scs = append(scs, engine.Scenario{Name: name, Bound: -1, Fn: func(c *engine.Chooser) {
					e := get(c)
					c.Cover("plan", "receivers")
					init := inits[c.Choose(len(inits), "init")]
					if two {
						runProgram(c, e, name, init, prep, [][]instr{all})
					} else {
						runProgram(c, e, name, init, all, nil)
					}
				}})
			}
		}
		primary := ci == 0 || cf.Name == "std4-s80-P2" || cf.Name == "ci4-s45-P1"
		for _, pl := range plans(tier, primary, ci == 0) {
			pl := pl
			for _, init := range initsFor(tier, primary, pl.name, cf.Name) {
				init := init
				for lo := 0; lo < len(pl.pos[0]); lo += chunk {
					hi := lo + chunk
					if hi > len(pl.pos[0]) {
						hi = len(pl.pos[0])
					}
					first := pl.pos[0][lo:hi]
					name := fmt.Sprintf("%s/%s/init-%s/first-%03d", cf.Name, pl.name, initNames[init], lo)
					scs = append(scs, engine.Scenario{Name: name, Bound: -1, Fn: func(c *engine.Chooser) {
						runProgram(c, get(c), name, init, first, pl.pos[1:])
					}})
				}
			}
		}
	}
	return scs
}

var debugLeaves = os.Getenv("C06_DEBUG") != ""

func runProgram(c *engine.Chooser, e *env, name string, init int, first []instr, rest [][]instr) {
	uni.Seed(c, name) // no fresh randomness is drawn inside a leaf (registers are copies); kept for discipline
	m := newMachine(e, c, name, init)
	c.Cover("init", initNames[init])
	c.Cover("config", e.cf.Name)
	c.Cover("ring", map[bool]string{false: "standard", true: "conjugate-invariant"}[e.ci])
	c.Cover("precision-mode", fmt.Sprintf("primes-per-rescale-%d", e.k))
	c.Cover("auxiliary-primes", fmt.Sprint(len(e.cf.LogP)))
	if e.x.Slots < e.x.Params.MaxSlots() {
		c.Cover("packing", "sparse")
	} else {
		c.Cover("packing", "full")
	}
	c.Cover("slots", fmt.Sprint(e.x.Slots))
	// the property is conditional on the message fitting the modulus: an initial file that does not (default
	// scale above Q_0 in the two-primes-per-rescale mode) is out of scope as a whole
	if r := m.r[0]; math.Log2(r.sf())+math.Log2(r.v.MaxAbs()+r.eps)+2 >= e.log2Q(r.level)-1 {
		c.Skip("initial register file does not fit the modulus")
		return
	}
	alpha := first
	for pos := 0; ; pos++ {
		ins := alpha[c.Choose(len(alpha), fmt.Sprintf("i%d", pos))]
		st := m.step(ins)
		if debugLeaves {
			fmt.Fprintf(os.Stderr, "leaf %s pos=%d %s -> %d\n", name, pos, ins.name(), st)
		}
		c.Count(1)
		if st != stOK {
			c.Outcome(e.cf.Name, m.path, st)
			return
		}
		if pos >= len(rest) {
			break
		}
		alpha = rest[pos]
	}
	r := m.r[0]
	c.Outcome(e.cf.Name, r.level, r.degree, r.v.Hash64())
}

func main() {
	engine.Main(engine.Check{
		ID:    "C06",
		Level: "model_checking",
		Rule: "state = three ciphertext registers (model slot vector, propagated error bound, level, degree, exact rational scale); transition = one evaluator call " +
			"(opcode x operand kind x destination form). Every straight-line program up to the tier's length over the alphabet is executed from four initial register files per configuration; " +
			"after every instruction metadata is compared exactly and decrypt+decode against the model within the propagated bound x16. " +
			"A program stops at a documented rejection, a call the documentation forbids, or when the message no longer fits the modulus (out of scope). " +
			"evaluations = instructions executed; distinct_nontrivial = distinct (configuration, final model state | stop reason) classes.",
		Assumptions: []string{
			"noise / message within the modulus (scale*(|v|+eps)*4 < Q_level/2), otherwise the leaf is out of scope",
			"secret-key encryption for the initial registers (fresh noise = one error polynomial); secret ternary with the Hamming weight of the key actually drawn",
			"complex scalars with non-zero imaginary part are not used in the conjugate-invariant ring",
			"scale metadata compared against the exact rational product/quotient of the documented factors with relative tolerance 2^-100 (rlwe.Scale is a 128-bit float; every operation rounds)",
			"parameter sets without auxiliary modulus use evaluation keys with a base-2^6 decomposition",
			"aliasing opOut == op1 is C09's; destination forms here are opOut == op0, XxxNew, fresh opOut, and a previously used opOut (degree 2, top level, other scale and LogDimensions, unrelated content)",
			"a receiver of larger degree may keep that degree (rlwe.InitOutputBinaryOp documents max(op0, op1, opOut)) as long as the value is right",
		},
		Scenarios:      scenarios,
		QuickBudget:    150 * time.Second,
		ThoroughBudget: 25 * time.Minute,
		Expect: func(tier string) []string {
			ex := []string{"ring=standard", "ring=conjugate-invariant", "precision-mode=primes-per-rescale-1", "precision-mode=primes-per-rescale-2",
				"auxiliary-primes=0", "auxiliary-primes=1", "auxiliary-primes=2", "packing=sparse", "packing=full", "slots=1", "slots=2", "slots=4", "slots=8", "slots=16",
				"scales=equal", "scales=ratio-integer", "scales=ratio-non-integer", "scalar-path=gaussian-integer", "scalar-path=non-integer",
				"mta-scale-up=integer-ratio", "mta-scale-up=equal", "mta-const=equal-scales", "mta-const=acc-scale-larger",
				"oracle=tight", "decoder=reused", "plan=spine", "plan=boundary-scalars", "plan=receivers", "receiver=lowers-the-level", "dest=out@res", "dest=out@zero", "dest=reused@res", "dest=nokeys", "kind=invalid-type", "op=MulThenAddAlias", "op=Refusal", "kind=uint64-2p63", "kind=uint-2p64m1", "kind=int64-min", "kind=bigInt-2p64p1", "kind=float64-2p63", "kind=x2p63", "dest=inplace", "dest=new", "dest=out", "dest=acc", "dest=reused", "setscale=non-integer-ratio", "rescaleto=levels-0", "rescaleto=levels-1"}
			seen := map[string]bool{}
			for _, i := range alphabet() {
				if !seen["op="+i.op] {
					seen["op="+i.op] = true
					ex = append(ex, "op="+i.op)
				}
				if i.kind != "-" && !seen["kind="+i.kind] {
					seen["kind="+i.kind] = true
					ex = append(ex, "kind="+i.kind)
				}
			}
			for _, n := range initNames {
				ex = append(ex, "init="+n)
			}
			return ex
		},
	})
}
