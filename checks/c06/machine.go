package main

import (
	"fmt"
	"math"
	"math/big"
	"os"
	"strings"

	"github.com/tuneinsight/lattigo/v6/core/rlwe"
	"github.com/tuneinsight/lattigo/v6/schemes/ckks"

	"verif/engine"
	"verif/lib/cklib"
	"verif/uni"
)

const sigConstLevel0 = "C06/Mul/constant-scaled-by-two-primes-at-level-0/panic"

const safety = 16 // fixed safety factor on the propagated bound (DESIGN C06); never tuned

// machine is the state of one execution: three ciphertext registers with their models.
type machine struct {
	e    *env
	c    *engine.Chooser
	r    [3]*reg
	path []string
	// ev: the evaluator of this leaf, a ShallowCopy (fresh scratch buffers and encoder buffers, shared keys and
	// tables) of the configuration's evaluator: whatever state an evaluator carries from call to call is
	// carried along the program of the leaf and nowhere else, so leaves are independent of exploration order
	ev   *ckks.Evaluator
	name string // scenario name + initial register file (leaf identity together with path)
	// defect: set by step when the instruction is about to exercise a specific, separately reported code
	// path; every oracle failure of that instruction is then reported under this one signature
	// (one defect = one signature, see FINDINGS.md), so that other failures keep their own.
	defect string
}

func newMachine(e *env, c *engine.Chooser, name string, init int) *machine {
	m := &machine{e: e, c: c, name: name, ev: e.ev.ShallowCopy()}
	for i := range m.r {
		m.r[i] = e.inits[init][i].clone()
	}
	return m
}

// status of one instruction
const (
	stOK       = iota // executed, state advanced, oracle applied
	stEnd             // program ends here (documented rejection, forbidden call, out of budget): nothing more to judge
	stViolated        // oracle failure recorded
)

// sig: C06/<opcode>/<operand class or parameter>/<what failed>. Scalar and vector *types* share code
// paths, so the class (ct, pt, scalar-int, scalar-frac, vec) is used, not the Go type.
func (m *machine) sig(ins instr, what string) string {
	if m.defect != "" {
		return m.defect
	}
	if ins.dest == "reused" {
		// failures that only a previously used receiver provokes get their own family of signatures
		return "C06/" + ins.op + "/" + kindClass(ins.kind) + "/reused-receiver/" + what
	}
	if strings.Contains(ins.dest, "@") {
		// the receiver's pre-allocated level / degree is what matters
		return "C06/" + ins.op + "/" + kindClass(ins.kind) + "/receiver-" + ins.dest + "/" + what
	}
	return "C06/" + ins.op + "/" + kindClass(ins.kind) + "/" + what
}

func kindClass(kind string) string {
	switch {
	case strings.HasPrefix(kind, "ct-"):
		return "ct"
	case strings.HasPrefix(kind, "pt-"):
		return kind
	case strings.HasPrefix(kind, "vec-"):
		return "vec"
	case strings.HasSuffix(kind, "-frac"):
		return "scalar-frac"
	case strings.HasSuffix(kind, "-gint"), strings.HasSuffix(kind, "-int"), kind == "int", kind == "int64", kind == "uint", kind == "uint64", kind == "bigInt":
		return "scalar-int"
	}
	return kind
}

// fail records a violation (deduplicated per signature and worker, see cklib.FailOnce).
func (m *machine) fail(sig, format string, args ...interface{}) {
	if debugLeaves {
		fmt.Fprintf(os.Stderr, "FAIL %s: "+format+"\n", append([]interface{}{sig}, args...)...)
	}
	cklib.FailOnce(m.c, m.name+" "+strings.Join(m.path, " "), sig, format, args...)
}

// call runs a library call, converting a panic into a recorded violation.
func (m *machine) call(ins instr, f func() error) (err error, panicked bool) {
	err, pan := uni.Try(f)
	if pan != nil {
		// a panic in the middle of an evaluator method can leave its scratch buffers resized: never reuse it
		m.ev = m.e.ev.ShallowCopy()
		m.fail(m.sig(ins, "panic"), "%s at %v on state %s: panic: %v", ins.name(), m.path, m.r[0].brief(), pan)
		return nil, true
	}
	return err, false
}

func (r *reg) brief() string {
	return fmt.Sprintf("{lvl=%d deg=%d scale=2^%.4f eps=%.3g |v|=%.3g}", r.level, r.degree, math.Log2(r.sf()), r.eps, r.v.MaxAbs())
}

// expectError: the documentation promises an error for this call.
func (m *machine) expectError(ins instr, err error, why string) int {
	if err == nil {
		m.fail(m.sig(ins, "documented-error-missing"), "%s at %v on state %s: %s, but no error was returned", ins.name(), m.path, m.r[0].brief(), why)
		return stViolated
	}
	m.c.Cover("rejected", ins.op+":"+why)
	return stEnd
}

// forbidden: the documentation forbids the call (or leaves the result to the caller's responsibility):
// it is executed once to see that it does not panic, then the program is not extended.
func (m *machine) forbidden(ins instr, why string) int {
	m.c.Cover("forbidden", ins.op+":"+why)
	return stEnd
}

func (m *machine) unexpectedError(ins instr, err error) int {
	m.fail(m.sig(ins, "unexpected-error"), "%s at %v on state %s: %v", ins.name(), m.path, m.r[0].brief(), err)
	return stViolated
}

// freshOut is the "out" destination: a degree-1 ciphertext at the top level.
func (m *machine) freshOut() *rlwe.Ciphertext {
	return ckks.NewCiphertext(m.e.x.Params, 1, m.e.maxLvl)
}

// receiver builds the destination of an out-of-place call and returns the level it was allocated at (a large
// number when the operation allocates or reuses op0). Forms:
//
//	out          fresh, degree 1, top level           reused        used before: degree 2, top level, stale content
//	out@res      fresh, degree 1, level(op0) - primes per rescale (the level a rescale results in)
//	out@res1     one level above that                 out@in        level(op0)
//	out@zero     level 0                              reused@res    degree 2 with stale content at level(op0) - primes per rescale
//
// Operations that document the working level min(op0, op1, opOut) (rlwe.InitOutputBinaryOp / UnaryOp, Automorphism,
// Relinearize) produce their result at the lower of the two levels; Rescale and RescaleTo resize the receiver to the
// level they document whatever it had.
func (m *machine) receiver(dest string, a *reg) (ct *rlwe.Ciphertext, level int) {
	const none = 1 << 30
	clamp := func(l int) int {
		if l < 0 {
			return 0
		}
		if l > m.e.maxLvl {
			return m.e.maxLvl
		}
		return l
	}
	switch dest {
	case "inplace", "nokeys":
		return a.ct, none
	case "out":
		return m.freshOut(), m.e.maxLvl
	case "reused":
		return m.e.stale.CopyNew(), m.e.maxLvl
	case "out@res":
		l := clamp(a.level - m.e.k)
		return ckks.NewCiphertext(m.e.x.Params, 1, l), l
	case "out@res1":
		l := clamp(a.level - m.e.k + 1)
		return ckks.NewCiphertext(m.e.x.Params, 1, l), l
	case "out@in":
		return ckks.NewCiphertext(m.e.x.Params, 1, a.level), a.level
	case "out@zero":
		return ckks.NewCiphertext(m.e.x.Params, 1, 0), 0
	case "reused@res":
		l := clamp(a.level - m.e.k)
		st := m.e.stale.CopyNew()
		st.Resize(2, l)
		return st, l
	}
	panic("harness: dest " + dest)
}

func isReused(dest string) bool { return strings.HasPrefix(dest, "reused") }

// operand resolution ------------------------------------------------------------------------------------

type operand struct {
	class string // "ct", "pt", "scalar", "vec"
	reg   *reg   // model of a ct / pt operand
	val   rlwe.Operand
	k     constant
	vec   vecOperand
}

func (m *machine) operand(kind string, acc bool) operand {
	e := m.e
	switch kind {
	case "ct-other":
		r := m.r[1]
		if acc {
			r = m.r[2]
		}
		return operand{class: "ct", reg: r, val: r.ct}
	case "ct-same":
		r := m.r[0]
		if acc {
			r = m.r[1] // R0 += R1*R1
		}
		return operand{class: "ct", reg: r, val: r.ct}
	case "pt-eq", "pt-scale-x2", "pt-low-level":
		return operand{class: "pt", reg: e.pts[kind], val: e.ptv[kind].CopyNew()}
	}
	for _, k := range e.consts {
		if k.kind == kind {
			return operand{class: "scalar", k: k, val: k.val}
		}
	}
	for _, v := range e.vecs {
		if v.kind == kind {
			return operand{class: "vec", vec: v, val: v.val}
		}
	}
	if kind == "invalid-type" {
		return operand{class: "invalid", val: int32(3)} // not in the documented list of operand types
	}
	panic("harness: unknown operand kind " + kind)
}

// scalar multiplication model: the evaluator multiplies by round(c*F)/F (real and imaginary parts rounded
// separately to integers): |c' - c| <= sqrt2/2 / F, plus the conversion of c to the encoding precision
// (constants here are exact dyadic numbers, so that term is zero; one unit is kept for the 128-bit product).
func scalarDelta(F float64) float64 { return sqrt2 * 0.5 / F * (1 + 1e-9) }

// ------------------------------------------------------------------------------------------------------------

// step executes one instruction on the implementation and on the model, then applies the oracle to R0.
func (m *machine) step(ins instr) int {
	e, c := m.e, m.c
	nb := e.x.NB
	ev := m.ev
	if ins.dest == "nokeys" {
		ev = m.e.evNone.ShallowCopy() // an evaluator that was given no evaluation key at all
	}
	a := m.r[0]
	m.path = append(m.path, ins.name())
	m.defect = ""
	c.Cover("op", ins.op)
	c.Cover("dest", ins.dest)
	if ins.kind != "-" {
		c.Cover("kind", ins.kind)
	}

	// destination plumbing for op(a, x) -> R0
	var out *rlwe.Ciphertext
	run2 := func(inplace func(out *rlwe.Ciphertext) error, newf func() (*rlwe.Ciphertext, error)) (error, bool) {
		if ins.dest == "new" {
			return m.call(ins, func() (err error) { out, err = newf(); return })
		}
		out, _ = m.receiver(ins.dest, a)
		return m.call(ins, func() error { return inplace(out) })
	}

	n := *a // the model of the result, filled below
	n.v = a.v
	n.scale = a.scale
	// lv: the level op0 contributes to operations working at min(op0, op1, opOut)
	lv := a.level
	if ins.dest != "new" && ins.dest != "acc" && ins.dest != "-" && ins.dest != "nokeys" {
		if _, rl := m.receiver(ins.dest, a); rl < lv {
			lv = rl
			c.Cover("receiver", "lowers-the-level")
		}
	}
	n.level = lv

	switch ins.op {
	case "Swap":
		m.r[0], m.r[1] = m.r[1], m.r[0]
		c.State(e.cf.Name, "swap", m.r[0].level, m.r[0].degree, m.r[1].level, m.r[1].degree)
		return stOK

	case "Add", "Sub":
		x := m.operand(ins.kind, false)
		sub := ins.op == "Sub"
		err, pan := run2(func(o *rlwe.Ciphertext) error {
			if sub {
				return ev.Sub(a.ct, x.val, o)
			}
			return ev.Add(a.ct, x.val, o)
		}, func() (*rlwe.Ciphertext, error) {
			if sub {
				return ev.SubNew(a.ct, x.val)
			}
			return ev.AddNew(a.ct, x.val)
		})
		if pan {
			return stViolated
		}
		if x.class == "invalid" {
			return m.expectError(ins, err, "operand type not accepted")
		}
		if err != nil {
			return m.unexpectedError(ins, err)
		}
		pm := func(p, q cklib.C) cklib.C {
			if sub {
				return p.Sub(q)
			}
			return p.Add(q)
		}
		switch x.class {
		case "ct", "pt":
			b := x.reg
			n.level = min(lv, b.level)
			n.degree = max(a.degree, b.degree)
			if isReused(ins.dest) && n.degree < 2 {
				// Add/Sub resize opOut to max(op0, op1, opOut) degree and never touch the extra component
				m.defect = "C06/Add-Sub/larger-degree-receiver-keeps-old-component"
			}
			n.v = cklib.Map2(a.v, b.v, pm)
			switch a.scale.Cmp(b.scale) {
			case 0:
				n.eps = a.eps + b.eps // ε_add = ε1 + ε2
				c.Cover("scales", "equal")
			default:
				// documented mechanism (anchors): scale alignment by the *integer* ratio, output scale = max.
				// The smaller-scale operand is multiplied by k = floor(r), r = big/small, instead of r: read at
				// the larger scale it appears multiplied by k/r. Truncation term |1-k/r|·|v_small|.
				hi, lo := a, b
				if a.scale.Cmp(b.scale) < 0 {
					hi, lo = b, a
				}
				r := ratQuo(hi.scale, lo.scale)
				k := new(big.Rat).SetInt(floorRat(r))
				kr := ratF(ratQuo(k, r))
				n.scale = hi.scale
				n.eps = hi.eps + lo.eps*kr + math.Abs(1-kr)*lo.v.MaxAbs()
				if r.IsInt() {
					c.Cover("scales", "ratio-integer")
				} else {
					c.Cover("scales", "ratio-non-integer")
				}
			}
		case "scalar":
			// constant added to every slot; real and imaginary parts are rounded to integers at scale s: error <= 2·(1/2)/s
			n.v = cklib.Map1(a.v, func(p cklib.C) cklib.C { return pm(p, x.k.m) })
			n.eps = a.eps + 2/a.sf() + x.k.abs()*2*nb.EncEps
		case "vec":
			// vector encoded at the ciphertext's own scale and level
			n.v = cklib.Map2(a.v, x.vec.m, pm)
			n.eps = a.eps + nb.Encode(x.vec.m.MaxAbs(), a.sf())
		}

	case "Mul", "MulRelin":
		x := m.operand(ins.kind, false)
		relin := ins.op == "MulRelin"
		if (x.class == "vec" || (x.class == "scalar" && !x.k.isInt)) && lv-e.k+1 < 0 {
			// 128-bit mode at level 0: the constant is to be scaled by two primes but only one is left;
			// the evaluator indexes SubRings[level-1] (panic) instead of returning an error
			m.defect = sigConstLevel0
		}
		err, pan := run2(func(o *rlwe.Ciphertext) error {
			if relin {
				return ev.MulRelin(a.ct, x.val, o)
			}
			return ev.Mul(a.ct, x.val, o)
		}, func() (*rlwe.Ciphertext, error) {
			if relin {
				return ev.MulRelinNew(a.ct, x.val)
			}
			return ev.MulNew(a.ct, x.val)
		})
		if pan {
			return stViolated
		}
		if m.defect == sigConstLevel0 && err != nil {
			c.Cover("rejected", "Mul:level too low to scale the constant by two primes")
			return stEnd
		}
		if x.class == "invalid" {
			return m.expectError(ins, err, "operand type not accepted")
		}
		if ins.dest == "nokeys" && relin && x.class == "ct" && a.degree+x.reg.degree <= 2 && a.degree <= 1 && x.reg.degree <= 1 {
			return m.expectError(ins, err, "no relinearization key")
		}
		switch x.class {
		case "ct", "pt":
			b := x.reg
			if a.degree+b.degree > 2 {
				return m.expectError(ins, err, "total degree > 2")
			}
			if a.degree > 1 || b.degree > 1 {
				// "The procedure will return an error if either op0.Degree or op1.Degree > 1": error or not, the result is not specified
				return m.forbidden(ins, "operand degree > 1")
			}
			if err != nil {
				return m.unexpectedError(ins, err)
			}
			n.level = min(lv, b.level)
			n.scale = ratMul(a.scale, b.scale) // documented: product of the scales
			n.v = cklib.Map2(a.v, b.v, func(p, q cklib.C) cklib.C { return p.Mul(q) })
			n.eps = mulErr(a.v.MaxAbs(), a.eps, b.v.MaxAbs(), b.eps) // ε_mul = |v1|ε2+|v2|ε1+ε1ε2 (tensoring is exact mod Q)
			if x.class == "ct" {
				n.degree = 2
				if relin {
					n.degree = 1
					n.eps += nb.KeySwitch(n.level) / ratF(n.scale) // relinearisation = one gadget product
				}
			} else {
				n.degree = a.degree
			}
		case "scalar":
			if err != nil {
				return m.unexpectedError(ins, err)
			}
			n.v = cklib.Map1(a.v, func(p cklib.C) cklib.C { return p.Mul(x.k.m) })
			if x.k.isInt {
				// Gaussian integer: exact RNS scalar, no scaling, no level
				// (+ the conversion of the constant to the encoding precision: relative 2^-prec, zero for small constants)
				n.eps = a.eps*x.k.abs() + a.v.MaxAbs()*x.k.abs()*2*nb.EncEps
				c.Cover("scalar-path", "gaussian-integer")
			} else {
				// non-integer: constant scaled by the current prime(s); scale multiplied accordingly
				F, ok := e.rescaleFactor(lv)
				if !ok {
					return m.forbidden(ins, "no prime left for constant scaling")
				}
				n.scale = ratMul(a.scale, F)
				d := scalarDelta(ratF(F))
				n.eps = a.eps*(x.k.abs()+d) + a.v.MaxAbs()*d
				c.Cover("scalar-path", "non-integer")
			}
		case "vec":
			if err != nil {
				return m.unexpectedError(ins, err)
			}
			// vector encoded at scale = current prime(s), then plaintext multiplication
			F, ok := e.rescaleFactor(lv)
			if !ok {
				return m.forbidden(ins, "no prime left for constant scaling")
			}
			n.scale = ratMul(a.scale, F)
			n.v = cklib.Map2(a.v, x.vec.m, func(p, q cklib.C) cklib.C { return p.Mul(q) })
			n.eps = mulErr(a.v.MaxAbs(), a.eps, x.vec.m.MaxAbs(), nb.Encode(x.vec.m.MaxAbs(), ratF(F)))
		}

	case "MulThenAdd", "MulRelinThenAdd":
		// R0 += R1 * x
		relin := ins.op == "MulRelinThenAdd"
		s := m.r[1]
		x := m.operand(ins.kind, true)
		out = a.ct
		implCmp := s.ct.Scale.Cmp(a.ct.Scale) // how the recorded scales compare before the call
		if (x.class == "vec" || (x.class == "scalar" && !x.k.isInt)) && s.scale.Cmp(a.scale) == 0 && min(a.level, s.level)-e.k+1 < 0 {
			m.defect = sigConstLevel0
		}
		err, pan := m.call(ins, func() error {
			if relin {
				return ev.MulRelinThenAdd(s.ct, x.val, a.ct)
			}
			return ev.MulThenAdd(s.ct, x.val, a.ct)
		})
		if pan {
			return stViolated
		}
		if m.defect == sigConstLevel0 && err != nil {
			c.Cover("rejected", "MulThenAdd:level too low to scale the constant by two primes")
			return stEnd
		}
		if x.class == "invalid" {
			return m.expectError(ins, err, "operand type not accepted")
		}
		prodV := func(q cklib.Vec) cklib.Vec {
			return cklib.Map2(a.v, cklib.Map2(s.v, q, func(p, q cklib.C) cklib.C { return p.Mul(q) }), func(p, q cklib.C) cklib.C { return p.Add(q) })
		}
		switch x.class {
		case "ct", "pt":
			b := x.reg
			if s.degree+b.degree > 2 {
				return m.expectError(ins, err, "total degree > 2")
			}
			if s.degree > 1 || b.degree > 1 {
				return m.forbidden(ins, "operand degree > 1")
			}
			res := ratMul(s.scale, b.scale)
			if a.scale.Cmp(res) > 0 {
				// "User must ensure that opOut.Scale <= op0.Scale * op1.Scale"
				return m.forbidden(ins, "opOut.Scale > op0.Scale*op1.Scale")
			}
			if err != nil {
				return m.unexpectedError(ins, err)
			}
			n.level = min(a.level, min(s.level, b.level))
			pe := mulErr(s.v.MaxAbs(), s.eps, b.v.MaxAbs(), b.eps)
			if x.class == "ct" {
				if relin {
					n.degree = max(1, a.degree)
					pe += nb.KeySwitch(n.level) / ratF(res)
				} else {
					n.degree = 2
				}
			} else {
				n.degree = max(a.degree, s.degree)
			}
			n.v = prodV(b.v)
			pmax := s.v.MaxAbs() * b.v.MaxAbs()
			ratio := ratQuo(res, a.scale)
			if rf := ratF(ratio); rf >= 2 {
				// "If opOut.Scale < op0.Scale * op1.Scale, then scales up opOut before adding the result": opOut is
				// multiplied by the ratio (exactly when it is an integer; through a scaled rounded constant otherwise)
				// and takes the product's scale.
				n.scale = res
				d := 0.0
				if !ratio.IsInt() {
					F, _ := e.rescaleFactor(n.level)
					if F == nil {
						return m.forbidden(ins, "no prime left for constant scaling")
					}
					d = scalarDelta(ratF(F)) / rf // relative error of round(ratio·F)/F w.r.t. ratio
					c.Cover("mta-scale-up", "non-integer-ratio")
					// mulRelinThenAdd scales opOut with eval.Mul(opOut, &ratio) (which, for a non-integer constant, also
					// multiplies by the current prime and records that) and then overwrites opOut.Scale with resScale
					m.defect = "C06/MulThenAdd/scale-up-by-non-integer-ratio"
				} else {
					c.Cover("mta-scale-up", "integer-ratio")
				}
				n.eps = a.eps*(1+d) + a.v.MaxAbs()*d + pe
				if !ratio.IsInt() {
					// repaired behaviour: opOut is multiplied by floor(ratio) (exactly) and takes the product's scale,
					// so it appears multiplied by k/ratio: truncation term |1-k/ratio|·|v_acc| as for Add
					kr := ratF(ratQuo(new(big.Rat).SetInt(floorRat(ratio)), ratio))
					n.eps = a.eps*kr + math.Abs(1-kr)*a.v.MaxAbs() + pe
				}
			} else {
				// ratio in [1,2): opOut is left alone; the product (true scale res) is read at opOut's scale and
				// appears multiplied by ratio: mismatch term |ratio-1|·|v1·v2|
				n.eps = a.eps + rf*pe + (rf-1)*pmax
				if rf == 1 {
					c.Cover("mta-scale-up", "equal")
				} else {
					c.Cover("mta-scale-up", "ratio-below-2")
				}
			}
		case "scalar", "vec":
			cmp := s.scale.Cmp(a.scale)
			if nearlyEqual(s.scale, a.scale) {
				// rlwe.Scale is a 128-bit float: two scales that are mathematically equal (or differ far below the
				// precision the check grants the recorded scale) may compare either way in the implementation,
				// and MulThenAdd branches on that comparison. The model follows the branch the recorded scales select.
				cmp = implCmp
				c.Cover("mta-const", "scales-equal-up-to-rounding")
			}
			if cmp > 0 {
				return m.expectError(ins, err, "op0.Scale > opOut.Scale")
			}
			if err != nil {
				return m.unexpectedError(ins, err)
			}
			n.level = min(a.level, s.level)
			n.degree = max(a.degree, s.degree)
			var xv cklib.Vec
			var xabs float64
			if x.class == "scalar" {
				xv = make(cklib.Vec, len(a.v))
				for i := range xv {
					xv[i] = x.k.m
				}
				xabs = x.k.abs()
			} else {
				xv, xabs = x.vec.m, x.vec.m.MaxAbs()
			}
			n.v = prodV(xv)
			// xe: error of the encoded / rounded operand at scaling F
			xerr := func(F *big.Rat) float64 {
				if x.class == "scalar" {
					if x.k.isInt && F.IsInt() {
						return 0 // integer constant times integer factor: exact
					}
					return scalarDelta(ratF(F))
				}
				return nb.Encode(xabs, ratF(F))
			}
			if cmp == 0 {
				if x.class == "scalar" && x.k.isInt {
					// same scales, Gaussian integer: plain exact multiply-accumulate
					n.eps = a.eps + s.eps*xabs
				} else {
					// same scales: opOut is multiplied (exactly) by the current prime(s) F and the operand is scaled by F
					F, ok := e.rescaleFactor(n.level)
					if !ok {
						return m.forbidden(ins, "no prime left for constant scaling")
					}
					n.scale = ratMul(a.scale, F)
					n.eps = a.eps + mulErr(s.v.MaxAbs(), s.eps, xabs, xerr(F))
				}
				c.Cover("mta-const", "equal-scales")
			} else {
				// opOut.Scale > op0.Scale: the operand is scaled by the quotient of the scales
				n.eps = a.eps + mulErr(s.v.MaxAbs(), s.eps, xabs, xerr(ratQuo(a.scale, s.scale)))
				c.Cover("mta-const", "acc-scale-larger")
			}
		}

	case "Refusal":
		// one leaf per documented refusal that no other instruction reaches: the call must return an error (neither
		// panic nor succeed). Operands are copies: the register file is not touched.
		a0, b0 := a.ct.CopyNew(), m.r[1].ct.CopyNew()
		nilMeta := func() *rlwe.Ciphertext { ct := m.freshOut(); ct.MetaData = nil; return ct }
		var f func() error
		switch ins.kind {
		case "Add/opOut-metadata-nil":
			f = func() error { return ev.Add(a0, b0, nilMeta()) }
		case "Add/op1-metadata-nil":
			f = func() error { b0.MetaData = nil; return ev.Add(a0, b0, m.freshOut()) }
		case "Mul/opOut-metadata-nil":
			f = func() error { return ev.Mul(a0, 0.5, nilMeta()) }
		case "Rescale/opOut-metadata-nil":
			f = func() error { return ev.Rescale(a0, nilMeta()) }
		case "RescaleTo/opOut-metadata-nil":
			f = func() error { return ev.RescaleTo(a0, e.x.Params.DefaultScale(), nilMeta()) }
		case "Add/op0-flagged-not-NTT":
			f = func() error { a0.IsNTT = false; return ev.Add(a0, b0, m.freshOut()) }
		case "Mul/op0-flagged-not-NTT":
			f = func() error { a0.IsNTT = false; return ev.Mul(a0, 2, m.freshOut()) }
		case "Add/plaintext-not-batched":
			f = func() error {
				pt := e.ptv["pt-eq"].CopyNew()
				pt.IsBatched = false
				return ev.Add(a0, pt, m.freshOut())
			}
		case "RescaleTo/ciphertext-scale-zero":
			f = func() error {
				a0.Scale = rlwe.NewScale(0)
				return ev.RescaleTo(a0, e.x.Params.DefaultScale(), m.freshOut())
			}
		case "MulThenAdd/op1-is-opOut":
			f = func() error { return ev.MulThenAdd(b0, a0, a0) }
		case "MulRelinThenAdd/op1-is-opOut":
			f = func() error { return ev.MulRelinThenAdd(b0, a0, a0) }
		case "MulRelinThenAdd/op0-is-opOut":
			f = func() error { return ev.MulRelinThenAdd(a0, b0, a0) }
		default:
			panic("harness: refusal " + ins.kind)
		}
		err, pan := m.call(ins, f)
		if pan {
			return stViolated
		}
		return m.expectError(ins, err, ins.kind)

	case "MulThenAddAlias":
		// opOut == op0: documented as an error for ciphertext operands ("opOut = op0 or op1") and refused for
		// constants that need scaling; with a Gaussian integer it is R0 += R0*c
		var val rlwe.Operand
		switch ins.kind {
		case "ct":
			val = m.r[1].ct
		case "frac":
			val = complex(0.5, 0)
		case "gint":
			val = 2
		case "vec":
			val = e.vecs[0].val
		}
		out = a.ct
		err, pan := m.call(ins, func() error { return ev.MulThenAdd(a.ct, val, a.ct) })
		if pan {
			return stViolated
		}
		if ins.kind != "gint" {
			return m.expectError(ins, err, "opOut == op0")
		}
		if err != nil {
			return m.unexpectedError(ins, err)
		}
		three := cklib.NewC(3, 0)
		n.v = cklib.Map1(a.v, func(p cklib.C) cklib.C { return p.Mul(three) })
		n.eps = 3 * a.eps

	case "Relinearize":
		err, pan := run2(func(o *rlwe.Ciphertext) error { return ev.Relinearize(a.ct, o) },
			func() (*rlwe.Ciphertext, error) { return ev.RelinearizeNew(a.ct) })
		if pan {
			return stViolated
		}
		if a.degree != 2 {
			return m.expectError(ins, err, "input degree != 2")
		}
		if ins.dest == "nokeys" {
			return m.expectError(ins, err, "no relinearization key")
		}
		if err != nil {
			return m.unexpectedError(ins, err)
		}
		n.degree = 1
		n.eps = a.eps + nb.KeySwitch(lv)/a.sf()

	case "Rotate", "Conjugate":
		k := 1
		if ins.kind == "k3" {
			k = 3
		}
		if ins.kind == "k5-nokey" {
			k = 5 // the evaluator holds keys for the rotations by 1 and 3 only
		}
		conj := ins.op == "Conjugate"
		err, pan := run2(func(o *rlwe.Ciphertext) error {
			if conj {
				return ev.Conjugate(a.ct, o)
			}
			return ev.Rotate(a.ct, k, o)
		}, func() (*rlwe.Ciphertext, error) {
			if conj {
				return ev.ConjugateNew(a.ct)
			}
			return ev.RotateNew(a.ct, k)
		})
		if pan {
			return stViolated
		}
		if conj && e.ci {
			return m.expectError(ins, err, "Conjugate in the conjugate-invariant ring")
		}
		if isReused(ins.dest) {
			// "The method will return an error if either ctIn or opOut degree is not equal to 1": the reused receiver has degree 2
			return m.expectError(ins, err, "automorphism into a degree != 1 receiver")
		}
		if a.degree != 1 {
			return m.expectError(ins, err, "automorphism of a degree != 1 ciphertext")
		}
		if ins.dest == "nokeys" || ins.kind == "k5-nokey" {
			return m.expectError(ins, err, "Galois key missing")
		}
		if err != nil {
			return m.unexpectedError(ins, err)
		}
		if conj {
			n.v = cklib.Map1(a.v, func(p cklib.C) cklib.C { return p.Conj() })
		} else {
			n.v = cklib.RotL(a.v, k)
		}
		n.eps = a.eps + nb.KeySwitch(lv)/a.sf()

	case "Rescale":
		out, _ = m.receiver(ins.dest, a)
		err, pan := m.call(ins, func() error { return ev.Rescale(a.ct, out) })
		if pan {
			return stViolated
		}
		F, ok := e.rescaleFactor(a.level)
		if !ok || a.level-e.k < 0 {
			return m.expectError(ins, err, "level too low")
		}
		if err != nil {
			return m.unexpectedError(ins, err)
		}
		n.level = a.level - e.k
		n.scale = ratQuo(a.scale, F) // documented: division by the consumed primes
		n.eps = a.eps + nb.RescaleRound(a.degree)/ratF(n.scale)

	case "RescaleTo":
		var min *big.Rat
		switch ins.kind {
		case "min-default":
			min = e.delta
		case "min-1.5xdefault":
			min = ratMul(e.delta, big.NewRat(3, 2))
		case "min-default-squared":
			min = ratMul(e.delta, e.delta)
		case "min-zero":
			min = new(big.Rat)
		}
		out, _ = m.receiver(ins.dest, a)
		if m.rescaleToUnderflows(a.scale, a.level, min) {
			m.defect = "C06/RescaleTo/loop-reaches-level-minus-one"
		}
		err, pan := m.call(ins, func() error { return ev.RescaleTo(a.ct, scaleOfRat(min), out) })
		if pan {
			return stViolated
		}
		if min.Sign() == 0 {
			return m.expectError(ins, err, "minScale <= 0")
		}
		if a.level == 0 {
			return m.expectError(ins, err, "level 0")
		}
		if err != nil {
			return m.unexpectedError(ins, err)
		}
		// documented: divide by the last prime, one level at a time, and stop when the scale would go below minScale/2
		half := ratQuo(min, big.NewRat(2, 1))
		lvl, sc, cnt := a.level, a.scale, 0
		for lvl > 0 {
			nx := ratQuo(sc, e.qAt(lvl))
			if nx.Cmp(half) < 0 {
				break
			}
			sc = nx
			lvl--
			cnt++
		}
		n.level, n.scale = lvl, sc
		n.eps = a.eps + float64(cnt)*nb.RescaleRound(a.degree)/ratF(sc)
		c.Cover("rescaleto", fmt.Sprintf("levels-%d", min3(cnt)))

	case "SetScale":
		var tgt *big.Rat
		switch ins.kind {
		case "default":
			tgt = e.delta
		case "1.5xdefault":
			tgt = ratMul(e.delta, big.NewRat(3, 2))
		case "2.5xdefault":
			tgt = ratMul(e.delta, big.NewRat(5, 2))
		}
		ratio := ratQuo(tgt, a.scale)
		if !ratio.IsInt() && a.level-e.k+1 < 0 {
			m.defect = sigConstLevel0 // SetScale multiplies by the non-integer ratio first
		}
		if F, ok := e.rescaleFactor(a.level); ok && !ratio.IsInt() && m.rescaleToUnderflows(ratMul(a.scale, F), a.level, tgt) {
			// the inner RescaleTo loop runs while newLevel >= 0: with a recorded scale of s·F it keeps dividing past level 0
			m.defect = "C06/RescaleTo/loop-reaches-level-minus-one"
		}
		out = a.ct
		err, pan := m.call(ins, func() error { return ev.SetScale(a.ct, scaleOfRat(tgt)) })
		if pan {
			return stViolated
		}
		// The evaluator converts the ratio to the encoding precision before deciding whether it is an integer: a
		// non-integer ratio above 2^precision becomes one (relative change 2^-precision, accounted below).
		ratioAsSeen := new(big.Float).SetPrec(e.x.Params.EncodingPrecision()).SetRat(ratio)
		if ratio.IsInt() || ratioAsSeen.IsInt() {
			if !ratio.IsInt() {
				m.defect = ""
				n.eps = a.eps + a.v.MaxAbs()*2*e.x.NB.EncEps
			}
			// integer ratio: exact multiplication, nothing to rescale
			if err != nil && a.level == 0 {
				return m.forbidden(ins, "level 0") // the inner RescaleTo refuses level 0
			}
			if err != nil {
				return m.unexpectedError(ins, err)
			}
			n.scale = tgt
			c.Cover("setscale", "integer-ratio")
		} else {
			// "sets the scale of the ciphertext to the input scale (consumes a level)": the ciphertext is multiplied
			// by round(ratio·F)/F (F = current prime(s)) and rescaled by F.
			F, ok := e.rescaleFactor(a.level)
			if !ok || a.level-e.k < 0 {
				if err == nil {
					return m.forbidden(ins, "no level left to consume")
				}
				c.Cover("rejected", "SetScale:no level left")
				return stEnd
			}
			if err != nil {
				return m.unexpectedError(ins, err)
			}
			n.scale = tgt
			n.level = a.level - e.k
			rf := ratF(ratio)
			if next := a.level - e.k; rf > 2 || (next >= 0 && rf <= 2/float64(e.x.Params.Q()[next])) {
				// SetScale multiplies by ratio (recorded scale s·F) and then calls RescaleTo(target): that undoes F
				// exactly only when target/2 <= s < target·q/2
				m.defect = "C06/SetScale/non-integer-ratio-outside-(2/q,2]"
			}
			d := scalarDelta(ratF(F)) / rf // relative error of the rounded constant
			n.eps = a.eps*(1+d) + a.v.MaxAbs()*d + float64(e.k)*nb.RescaleRound(a.degree)/ratF(tgt)
			c.Cover("setscale", "non-integer-ratio")
		}

	case "ScaleUp":
		var f *big.Rat
		switch ins.kind {
		case "x2":
			f = big.NewRat(2, 1)
		case "x3":
			f = big.NewRat(3, 1)
		case "x2.5":
			f = big.NewRat(5, 2)
		case "x2p63": // first value whose uint64 representation has the top bit set
			f = ratPow2(63)
		case "x2p64m1":
			f = new(big.Rat).Sub(ratPow2(64), big.NewRat(1, 1))
		case "x2p32":
			f = ratPow2(32)
		}
		err, pan := run2(func(o *rlwe.Ciphertext) error { return ev.ScaleUp(a.ct, scaleOfRat(f), o) },
			func() (*rlwe.Ciphertext, error) { return ev.ScaleUpNew(a.ct, scaleOfRat(f)) })
		if pan {
			return stViolated
		}
		if !f.IsInt() && err != nil {
			// the multiplication is carried out with an integer: refusing a fractional scale is a clean rejection
			c.Cover("rejected", "ScaleUp:non-integer scale")
			return stEnd
		}
		if err != nil {
			return m.unexpectedError(ins, err)
		}
		// "multiplies op0 by scale and sets its scale to its previous scale times scale": the value is unchanged
		n.scale = ratMul(a.scale, f)

	case "DropLevel":
		k := 1
		if ins.kind == "2" {
			k = 2
		}
		if k > a.level {
			return m.forbidden(ins, "more levels than available")
		}
		_, pan := m.call(ins, func() error {
			if ins.dest == "new" {
				out = ev.DropLevelNew(a.ct, k)
			} else {
				out = a.ct
				ev.DropLevel(a.ct, k)
			}
			return nil
		})
		if pan {
			return stViolated
		}
		n.level = a.level - k
	default:
		panic("harness: op " + ins.op)
	}

	// ---- advance the state, then the oracle ---------------------------------------------------------------------
	n.ct = out
	m.r[0] = &n
	return m.oracle(ins)
}

// rescaleToUnderflows: would RescaleTo's loop (divide by q_level while the quotient stays >= minScale/2, "for
// newLevel >= 0") still accept the division by q_0? Then it ends at level -1 (known finding).
func (m *machine) rescaleToUnderflows(scale *big.Rat, level int, min *big.Rat) bool {
	half := ratQuo(min, big.NewRat(2, 1))
	sc := scale
	for l := level; l >= 0; l-- {
		sc = ratQuo(sc, m.e.qAt(l))
		if sc.Cmp(half) < 0 {
			return false
		}
	}
	return level >= 1
}

// nearlyEqual: relative difference below 2^-90.
func nearlyEqual(a, b *big.Rat) bool {
	d := new(big.Rat).Sub(a, b)
	d.Abs(d)
	d.Quo(d, b)
	return d.Cmp(new(big.Rat).SetFrac(big.NewInt(1), new(big.Int).Lsh(big.NewInt(1), 90))) < 0
}

func min3(x int) int {
	if x > 3 {
		return 3
	}
	return x
}

// oracle checks R0 after an instruction: (i) metadata exactly, (ii) value within the propagated bound.
func (m *machine) oracle(ins instr) int {
	e, c := m.e, m.c
	r := m.r[0]
	ct := r.ct
	if ct == nil || ct.MetaData == nil {
		m.fail(m.sig(ins, "nil-output"), "%s at %v: nil output", ins.name(), m.path)
		return stViolated
	}
	// (i) metadata, exactly what the operation documents
	if ct.Level() != r.level {
		m.fail(m.sig(ins, "level"), "%s at %v: level %d, documented %d", ins.name(), m.path, ct.Level(), r.level)
		return stViolated
	}
	if isReused(ins.dest) && ct.Degree() == 2 && r.degree < 2 {
		// rlwe.InitOutputBinaryOp documents degree = max(op0, op1, opOut): a larger receiver may keep its degree, but
		// then its extra component must not change the value (judged below)
		r.degree = 2
		c.Cover("reused", "kept-larger-degree")
	}
	if ct.Degree() != r.degree {
		m.fail(m.sig(ins, "degree"), "%s at %v: degree %d, documented %d", ins.name(), m.path, ct.Degree(), r.degree)
		return stViolated
	}
	if !scaleMatches(ct.Scale, r.scale) {
		m.fail(m.sig(ins, "scale"), "%s at %v: scale 2^%.6f (%s), documented 2^%.6f (%s)", ins.name(), m.path,
			cklib.Log2Scale(ct.Scale), ct.Scale.Value.Text('g', 40), math.Log2(r.sf()), new(big.Float).SetPrec(160).SetRat(r.scale).Text('g', 40))
		return stViolated
	}
	if ct.LogDimensions.Cols != r.logSlots || ct.LogDimensions.Rows != 0 || !ct.IsBatched || !ct.IsNTT {
		m.fail(m.sig(ins, "metadata"), "%s at %v: LogDimensions=%v IsBatched=%v IsNTT=%v, want {0 %d} true true", ins.name(), m.path, ct.LogDimensions, ct.IsBatched, ct.IsNTT, r.logSlots)
		return stViolated
	}
	for i := range ct.Value {
		if ct.Value[i].Level() != r.level {
			m.fail(m.sig(ins, "level"), "%s at %v: component %d has level %d, ciphertext level %d", ins.name(), m.path, i, ct.Value[i].Level(), r.level)
			return stViolated
		}
	}
	// noise budget (explicit precondition of the property): the phase must not wrap. Coefficients of the
	// phase are bounded by the root-domain maximum scale·(|v|+ε) (x2 in the conjugate-invariant ring, x2 margin).
	vmax := r.v.MaxAbs()
	if math.Log2(r.sf())+math.Log2(vmax+r.eps+1e-300)+2 >= e.log2Q(r.level)-1 {
		c.Skip("noise/message budget exceeded")
		c.Cover("budget", "exceeded")
		return stEnd
	}
	// (ii) value
	got, err := e.x.DecryptDecode(ct)
	if err != nil {
		m.fail(m.sig(ins, "decode-error"), "%s at %v: %v", ins.name(), m.path, err)
		return stViolated
	}
	if len(got) != len(r.v) {
		m.fail(m.sig(ins, "metadata"), "%s at %v: decoded %d slots, want %d", ins.name(), m.path, len(got), len(r.v))
		return stViolated
	}
	// total bound: propagated ε + the decoder's own FFT error on values of this magnitude, times the safety factor
	bound := safety * (r.eps + e.x.NB.FFTErr(vmax+r.eps))
	worst := 0.0
	for i := range got {
		d := cklib.DistUpper(got[i], r.v[i])
		if d > worst {
			worst = d
		}
		if !(d <= bound) {
			m.fail(m.sig(ins, "value"), "%s at %v: slot %d = %v, model %v, |diff|=%.3g > bound %.3g (eps=%.3g, state %s)", ins.name(), m.path, i, got[i].Float(), r.v[i].Float(), d, bound, r.eps, r.brief())
			return stViolated
		}
	}
	if bound < 1e-3*math.Max(vmax, 1e-3) {
		c.Cover("oracle", "tight") // the bound is at least 10 bits below the value: a meaningful precision check
	} else {
		c.Cover("oracle", "loose")
	}
	c.Logf("%-40s %s worst=%.3g bound=%.3g", ins.name(), r.brief(), worst, bound)
	c.State(e.cf.Name, r.level, r.degree, math.Float64bits(r.sf()), r.v.Hash64())
	return stOK
}
