package main

import (
	"math/big"

	"github.com/tuneinsight/lattigo/v6/core/rlwe"
	"github.com/tuneinsight/lattigo/v6/schemes/ckks"
	"github.com/tuneinsight/lattigo/v6/utils/bignum"

	"verif/engine"
	"verif/lib/cklib"
)

// decoderScenario: the observation point of the property is Encoder.Decode after Decryptor.Decrypt. One
// Encoder instance decodes a fresh ciphertext, then a plaintext with huge slot values, then a fresh
// ciphertext again; the first and third decode must match their model. (The
// register machine itself decodes through cklib.DecryptDecode, which shields it from the defect this
// scenario isolates: see FINDINGS.md.)
func decoderScenario(cf cklib.Cfg, get func(c *engine.Chooser) *env) engine.Scenario {
	name := cf.Name + "/decoder-reuse"
	return engine.Scenario{Name: name, Bound: -1, Fn: func(c *engine.Chooser) {
		e := get(c)
		x := e.x
		ecd := ckks.NewEncoder(x.Params)
		regs := e.inits[0]
		order := c.Choose(2, "order")
		seq := []*reg{regs[0], regs[1], regs[0]}
		if order == 1 {
			seq = []*reg{regs[1], regs[2], regs[1]}
		}
		for i, r := range seq {
			pt := x.Dec.DecryptNew(r.ct)
			if i == 1 {
				// second decode: the same plaintext relabelled with a scale 2^-200 times smaller, i.e. slot values 2^200
				// times larger (any positive scale is admissible metadata); its result is not judged, it only has to
				// leave the Encoder usable for the third decode.
				pt.Scale = pt.Scale.Div(rlwe.NewScale(new(big.Int).Lsh(big.NewInt(1), 200)))
				if ecd.Prec() <= 53 {
					_ = ecd.Decode(pt, make([]complex128, x.Slots))
				} else {
					_ = ecd.Decode(pt, make([]*bignum.Complex, x.Slots))
				}
				continue
			}
			var got cklib.Vec
			if ecd.Prec() <= 53 {
				out := make([]complex128, x.Slots)
				if err := ecd.Decode(pt, out); err != nil {
					c.Fail("C06/decode/error", "%s: %v", cf.Name, err)
					return
				}
				got = make(cklib.Vec, len(out))
				for j := range out {
					got[j] = cklib.NewC(real(out[j]), imag(out[j]))
				}
			} else {
				out := make([]*bignum.Complex, x.Slots)
				if err := ecd.Decode(pt, out); err != nil {
					c.Fail("C06/decode/error", "%s: %v", cf.Name, err)
					return
				}
				got = make(cklib.Vec, len(out))
				for j := range out {
					got[j] = cklib.FromBig(out[j][0], out[j][1])
				}
			}
			bound := safety * (r.eps + x.NB.FFTErr(r.v.MaxAbs()+r.eps))
			for j := range got {
				if d := cklib.DistUpper(got[j], r.v[j]); !(d <= bound) {
					sig := "C06/decode/value"
					if i > 0 && e.ci && ecd.Prec() > 53 {
						sig = "C06/decode/conjugate-invariant-arbitrary-precision/stale-imaginary-part"
					}
					c.Fail(sig, "%s: decode #%d with the same Encoder: slot %d = %v, model %v, |diff|=%.3g > bound %.3g", cf.Name, i+1, j, got[j].Float(), r.v[j].Float(), d, bound)
					return
				}
			}
			c.Count(1)
		}
		c.Cover("decoder", "reused")
		c.Outcome(name, order)
	}}
}
