package main

// instr is one element of the instruction alphabet: opcode x operand kind x destination form.
//
//	op    Add Sub Mul MulRelin MulThenAdd MulRelinThenAdd Relinearize Rescale RescaleTo SetScale ScaleUp
//	      DropLevel Rotate Conjugate Swap
//	kind  the second operand (ciphertext register, plaintext, scalar type, vector type) or the parameter
//	dest  "inplace" (opOut == op0), "new" (the XxxNew form), "out" (a fresh degree-1 ciphertext at the top
//	      level, so Resize has work to do), "reused" (a ciphertext used before: degree 2, top level, other
//	      scale and LogDimensions, unrelated content). Aliasing opOut == op1 belongs to C09.
//
// Register conventions: R0 is the accumulator every instruction reads as op0 and writes; R1 and R2 are
// the other ciphertext registers (R1 can be brought into R0's place with Swap). MulThenAdd computes
// R0 += R1 * operand (opOut must differ from op0 and op1).
type instr struct {
	op, kind, dest string
	core           bool // member of the reduced alphabet used for the longest programs
}

func (i instr) name() string { return i.op + "/" + i.kind + "/" + i.dest }

var binaryOps = []string{"Add", "Sub", "Mul", "MulRelin"}
var accOps = []string{"MulThenAdd", "MulRelinThenAdd"}

// operand classes that are crossed with all destination forms (one per code path)
var classKinds = []string{"ct-other", "ct-same", "pt-eq", "complex128-gint", "complex128-frac", "vec-complex128"}

// remaining operand kinds (type variants of the same code paths): in-place destination only
var typeKinds = []string{"pt-scale-x2", "pt-low-level", "float64-int", "float64-frac", "int", "int64", "uint", "uint64", "bigInt",
	"bigFloat-int", "bigFloat-frac", "bignumComplex-gint", "bignumComplex-frac", "vec-float64-short", "vec-bigFloat", "vec-bignumComplex", "vec-complex128-len1", "vec-float64-half"}

var coreKinds = map[string]bool{"ct-other": true, "ct-same": true, "pt-eq": true, "complex128-gint": true, "complex128-frac": true, "vec-complex128": true}

func alphabet() []instr {
	var a []instr
	for _, op := range binaryOps {
		for _, k := range classKinds {
			for _, d := range []string{"inplace", "new", "out", "reused"} {
				a = append(a, instr{op, k, d, d == "inplace" && !(op == "Sub" && k != "ct-other")})
			}
		}
		for _, k := range typeKinds {
			a = append(a, instr{op, k, "inplace", false})
		}
	}
	for _, op := range accOps {
		for _, k := range append(append([]string{}, classKinds...), typeKinds...) {
			a = append(a, instr{op, k, "acc", coreKinds[k] && op == "MulRelinThenAdd" || k == "ct-other"})
		}
	}
	for _, d := range []string{"inplace", "new", "out", "reused"} {
		a = append(a, instr{"Relinearize", "-", d, d == "inplace"})
		a = append(a, instr{"Rotate", "k1", d, d == "inplace"})
	}
	a = append(a, instr{"Rotate", "k3", "inplace", false})
	for _, d := range []string{"inplace", "new", "out"} {
		a = append(a, instr{"Conjugate", "-", d, d == "inplace"})
	}
	for _, d := range []string{"inplace", "out", "reused"} {
		a = append(a, instr{"Rescale", "-", d, d == "inplace"})
		for _, k := range []string{"min-default", "min-1.5xdefault", "min-default-squared"} {
			a = append(a, instr{"RescaleTo", k, d, d == "inplace" && k == "min-default"})
		}
	}
	for _, k := range []string{"default", "1.5xdefault", "2.5xdefault"} {
		a = append(a, instr{"SetScale", k, "inplace", k == "default"})
	}
	for _, k := range []string{"x2", "x3", "x2.5"} {
		for _, d := range []string{"inplace", "new"} {
			a = append(a, instr{"ScaleUp", k, d, k == "x2" && d == "inplace"})
		}
	}
	for _, k := range []string{"1", "2"} {
		for _, d := range []string{"inplace", "new"} {
			a = append(a, instr{"DropLevel", k, d, k == "1" && d == "inplace"})
		}
	}
	a = append(a, instr{"Swap", "-", "-", true})
	return a
}

func coreAlphabet() []instr {
	var a []instr
	for _, i := range alphabet() {
		if i.core {
			a = append(a, i)
		}
	}
	return a
}

// opGroups partitions the alphabet by opcode: scenarios fix the opcode of the first instruction so that
// the work is spread over many scenarios of similar size.
func opGroups(a []instr) (names []string, groups map[string][]instr) {
	groups = map[string][]instr{}
	for _, i := range a {
		g := i.op
		switch i.op {
		case "Relinearize", "Rotate", "Conjugate", "Swap", "DropLevel", "ScaleUp":
			g = "Unary"
		case "Rescale", "RescaleTo", "SetScale":
			g = "Scaling"
		}
		if _, ok := groups[g]; !ok {
			names = append(names, g)
		}
		groups[g] = append(groups[g], i)
	}
	return
}
