#!/bin/sh
# Builds every check binary once (offline) so that quick tiers start with a warm build cache.
cd /verif || exit 1
export GOFLAGS=-mod=mod GOPROXY=off GOSUMDB=off GOTOOLCHAIN=local
mkdir -p bin evidence replays .work
rc=0
for d in checks/*/; do
  id=$(basename "$d")
  go build -tags verif -o "bin/$id" "./checks/$id" || rc=1
done
# warm the race-detector build used by C10's free-running race pass
go build -race -tags verif -o bin/c10.race ./checks/c10 || true
exit $rc
